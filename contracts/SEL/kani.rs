// UNIT SEL (Kani, bounded in the number of sources) — the coordinator's selection expression (C01, C06).
// The expression is cut from processing_loop on every run; what runs is core's real Iterator::min_by.
// ASSUMED: BTreeMap::iter_mut yields entries in ascending key order (VMap: array in ascending key order)
// ASSUMED: chrono DateTime::cmp compares instants (DateTimeL stand-in = (ms, ns inside the ms), compared lexicographically)
// ASSUMED: LogMessage::dt returns the message's datetime (stand-in struct with one field)
#![allow(dead_code, unused_variables, unused_mut)]
use std::cmp::Ordering;

// the stand-in instant is (whole milliseconds, nanoseconds inside the millisecond): derived Ord is lexicographic = instant order;
// chrono's integer accessors, should a selection expression use them, without 64-bit division (which CBMC cannot afford)
// ASSUMED: chrono DateTime::timestamp_millis floors the instant to ms; timestamp_micros / timestamp_nanos_opt to us / ns
#[derive(Clone, Copy, PartialEq, Eq, PartialOrd, Ord)]
pub struct DateTimeL { pub ms: i64, pub sub_ns: u32 }
impl DateTimeL {
    pub fn timestamp_millis(&self) -> i64 { self.ms }
    pub fn timestamp_subsec_nanos(&self) -> u32 { self.sub_ns }
}
pub struct LogMessage { pub dt: DateTimeL }
impl LogMessage { pub fn dt(&self) -> &DateTimeL { &self.dt } }
pub type PathId = usize;
pub type IsLastLogMessage = bool;
pub type Datum = (LogMessage, IsLastLogMessage);

pub struct VMap<const N: usize> { pub keys: [PathId; N], pub vals: [Datum; N], pub len: usize, pub rot: usize }
//@if path=src/bin/s4.rs regex="type\s+MapPathIdDatum\s*=\s*BTreeMap\s*<"
impl<const N: usize> VMap<N> {
    // BTreeMap: ascending key order
    pub fn iter_mut(&mut self) -> impl Iterator<Item = (&PathId, &mut Datum)> {
        let len = self.len;
        self.keys.iter().zip(self.vals.iter_mut()).take(len)
    }
}
//@else
impl<const N: usize> VMap<N> {
    // not a BTreeMap: iteration order unspecified -- modelled as an arbitrary rotation of the entries (no data movement)
    pub fn iter_mut(&mut self) -> impl Iterator<Item = (&PathId, &mut Datum)> {
        let len = self.len;
        let rot = if len == 0 { 0 } else { self.rot % len };
        let (va, vb) = self.vals[..len].split_at_mut(rot);
        let (ka, kb) = self.keys[..len].split_at(rot);
        kb.iter().zip(vb.iter_mut()).chain(ka.iter().zip(va.iter_mut()))
    }
}
//@endif

#[cfg(kani)]
fn sel_check<const N: usize>(flip_tie: bool) {
    let keys: [PathId; N] = kani::any();
    let dts: [(i64, u32); N] = kani::any();
    { let mut i = 0; while i < N { kani::assume(dts[i].1 < 1_000_000); i += 1; } }
    let len: usize = kani::any();
    kani::assume(len <= N);
    let mut i = 1;
    while i < N { kani::assume(keys[i - 1] < keys[i]); i += 1; }
    let rot: usize = kani::any();
    let mut map_pathid_datum: VMap<N> = VMap { keys, vals: core::array::from_fn(|i| (LogMessage { dt: DateTimeL { ms: dts[i].0, sub_ns: dts[i].1 } }, false)), len, rot };
//@cut slice path=src/bin/s4.rs fn=processing_loop anchor="(pathid, log_message, is_last) = match " take=expr until="{" label=SEL
//@head
    let r =
//@tail
    ;
//@end
    match r {
        None => assert!(len == 0),
        Some(val) => {
            let k = *val.0;
            let d = (val.1.0.dt().ms, val.1.0.dt().sub_ns);
            let mut found = false;
            let mut j = 0;
            while j < N {
                if j < len {
                    // C01: the selected message is an earliest pending message ...
                    assert!(d <= dts[j]);
                    // ... and among equal instants the one from the source named first (least PathId)
                    if dts[j] == d { if flip_tie { assert!(k >= keys[j]); } else { assert!(k <= keys[j]); } }
                    if keys[j] == k { found = true; assert!(dts[j] == d); }
                }
                j += 1;
            }
            assert!(found);
        }
    }
}

#[cfg(kani)] #[kani::proof] #[kani::unwind(4)] fn sel_n2() { sel_check::<2>(false); }
#[cfg(kani)] #[kani::proof] #[kani::unwind(6)] fn sel_n4() { sel_check::<4>(false); }
#[cfg(kani)] #[kani::proof] #[kani::unwind(8)] fn sel_n6() { sel_check::<6>(false); }
// vacuity guard: with the tie rule reversed the harness must fail (ties are reachable)
#[cfg(kani)] #[kani::proof] #[kani::unwind(5)] fn sel_n3_control_must_fail() { sel_check::<3>(true); }
