// UNIT BLK — block arithmetic and line-part invariants (C12; reused by C02).  DESIGN.md section 4.BLK
#![allow(unused_imports, non_camel_case_types, dead_code, unused_variables, unused_parens)]
use vstd::prelude::*;
use vstd::arithmetic::div_mod::*;
use vstd::arithmetic::mul::*;
use std::sync::Arc;
verus! {

global size_of usize == 8;   // assumption: 64-bit target (BlockIndex = usize holds any in-block offset)

// ---- real: scalar types and enums (src/common.rs, src/readers/blockreader.rs)
pub type FileOffset = u64;
pub type FileSz = u64;
pub type Count = u64;
pub type BlockSz = u64;
pub type BlockIndex = usize;
pub type BlockOffset = u64;
pub type Block = Vec<u8>;
pub type BlockP = Arc<Block>;
pub type LineParts = Vec<LinePart>;

//@cut type kind=enum path=src/common.rs name=FileTypeArchive derives=Clone,Copy
//@end
//@cut type kind=enum path=src/common.rs name=FileTypeFixedStruct derives=Clone,Copy
//@end
//@cut type kind=enum path=src/common.rs name=FileTypeTextEncoding derives=Clone,Copy
//@end
//@cut type kind=enum path=src/common.rs name=FileType derives=Clone,Copy
//@end

// ---- prelude: BlockReader reduced to the fields the cut functions read
pub struct BlockReader {
    pub blocksz: BlockSz,
    pub filesz: FileSz,
    pub filesz_actual: FileSz,
    pub filetype: FileType,
}

// ---- spec: the mathematical statements the arithmetic must meet
pub open spec fn sp_count_blocks(filesz: int, bsz: int) -> int {
    if filesz % bsz > 0 { filesz / bsz + 1 } else { filesz / bsz }
}
pub open spec fn sp_last(filesz: int, bsz: int) -> int {
    if filesz == 0 { 0 } else { sp_count_blocks(filesz, bsz) - 1 }
}
pub open spec fn sp_blocksz_at(bo: int, bsz: int, filesz: int) -> int {
    if filesz - bo * bsz < bsz { filesz - bo * bsz } else { bsz }
}
pub open spec fn is_normal(ft: FileType) -> bool {
    match ft {
        FileType::Evtx{ archival_type: FileTypeArchive::Normal } => true,
        FileType::FixedStruct{ archival_type: FileTypeArchive::Normal, .. } => true,
        FileType::Journal{ archival_type: FileTypeArchive::Normal } => true,
        FileType::Text{ archival_type: FileTypeArchive::Normal, .. } => true,
        _ => false,
    }
}

impl BlockReader {
    pub open spec fn sp_filesz(&self) -> int {
        if is_normal(self.filetype) { self.filesz as int }
        else if self.filetype == (FileType::Journal{ archival_type: FileTypeArchive::Bz2 }) { self.filesz as int }
        else { self.filesz_actual as int }
    }
    pub open spec fn wf(&self) -> bool {
        self.blocksz >= 1 && !(self.filetype is Unparsable)
    }

//@cut fn path=src/readers/blockreader.rs impl=BlockReader name=filesz ret=r
//@spec
    requires !(self.filetype is Unparsable)
    ensures r as int == self.sp_filesz()
//@end

//@cut fn path=src/readers/blockreader.rs impl=BlockReader name=blocksz ret=r
//@spec
    ensures r == self.blocksz
//@end

//@cut fn path=src/readers/blockreader.rs impl=BlockReader name=is_streamed_file ret=r
//@spec
    ensures r == !(is_normal(self.filetype) || self.filetype is Unparsable)
//@end

//@cut fn path=src/readers/blockreader.rs impl=BlockReader name=block_offset_at_file_offset ret=r
//@spec
    requires blocksz >= 1
    ensures r as int == fileoffset as int / blocksz as int
//@mutate "(fileoffset / blocksz)" "((fileoffset + 1) / blocksz)"
//@end

//@cut fn path=src/readers/blockreader.rs impl=BlockReader name=block_offset_at_file_offset_self ret=r
//@spec
    requires self.blocksz >= 1
    ensures r as int == fileoffset as int / self.blocksz as int
//@end

//@cut fn path=src/readers/blockreader.rs impl=BlockReader name=file_offset_at_block_offset ret=r
//@spec
    requires blockoffset as int * blocksz as int <= u64::MAX
    ensures r as int == blockoffset as int * blocksz as int
//@end

//@cut fn path=src/readers/blockreader.rs impl=BlockReader name=file_offset_at_block_offset_self ret=r
//@spec
    requires blockoffset as int * self.blocksz as int <= u64::MAX
    ensures r as int == blockoffset as int * self.blocksz as int
//@end

//@cut fn path=src/readers/blockreader.rs impl=BlockReader name=file_offset_at_block_offset_index ret=r
//@spec
    requires blockoffset as int * blocksz as int + blockindex as int <= u64::MAX
    ensures r as int == blockoffset as int * blocksz as int + blockindex as int
//@at_entry
    proof { lemma_mul_nonnegative(blockoffset as int, blocksz as int); }
//@end

//@cut fn path=src/readers/blockreader.rs impl=BlockReader name=fileoffset_last ret=r
//@spec
    requires self.wf(), self.sp_filesz() >= 1
    ensures r as int == self.sp_filesz() - 1
//@end

//@cut fn path=src/readers/blockreader.rs impl=BlockReader name=block_index_at_file_offset ret=r
//@spec
    requires blocksz >= 1
    ensures r as int == fileoffset as int % blocksz as int, (r as int) < blocksz as int
//@at_entry
    proof {
        lemma_fundamental_div_mod(fileoffset as int, blocksz as int);
        lemma_mod_bound(fileoffset as int, blocksz as int);
        lemma_div_pos_is_pos(fileoffset as int, blocksz as int);
        lemma_mul_is_commutative(blocksz as int, fileoffset as int / blocksz as int);
        assert((fileoffset as int / blocksz as int) * blocksz as int <= fileoffset as int);
    }
//@mutate "BlockReader::block_offset_at_file_offset(fileoffset, blocksz)" "BlockReader::block_offset_at_file_offset(fileoffset / 2, blocksz)"
//@end

//@cut fn path=src/readers/blockreader.rs impl=BlockReader name=block_index_at_file_offset_self ret=r
//@spec
    requires self.blocksz >= 1
    ensures r as int == fileoffset as int % self.blocksz as int
//@end

//@cut fn path=src/readers/blockreader.rs impl=BlockReader name=count_blocks ret=r
//@spec
    requires blocksz >= 1
    ensures r as int == sp_count_blocks(filesz as int, blocksz as int)
//@at_entry
    proof {
        lemma_fundamental_div_mod(filesz as int, blocksz as int);
        lemma_mod_bound(filesz as int, blocksz as int);
        lemma_div_pos_is_pos(filesz as int, blocksz as int);
        if filesz as int % blocksz as int > 0 {
            // then blocksz >= 2 or ...; filesz/blocksz < u64::MAX
            lemma_div_is_ordered_by_denominator(filesz as int, 1, blocksz as int);
            if blocksz == 1 { lemma_mod_bound(filesz as int, 1); }
            else { lemma_div_decreases(filesz as int, blocksz as int); }
        }
    }
//@mutate "filesz % blocksz > 0" "filesz % blocksz >= 0"
//@end

//@cut fn path=src/readers/blockreader.rs impl=BlockReader name=blocksz_at_blockoffset_impl ret=r
//@spec
    requires
        *blocksz >= 1,
        *blockoffset <= *blockoffset_last,
        *blockoffset_last as int == sp_last(*filesz as int, *blocksz as int),
    ensures
        r as int == sp_blocksz_at(*blockoffset as int, *blocksz as int, *filesz as int),
        *filesz > 0 ==> 0 < r <= *blocksz,
        *filesz == 0 ==> r == 0,
//@at_entry
    proof { lemma_blocksz_at(*blockoffset as int, *blocksz as int, *filesz as int); }
//@mutate "remainder != 0" "remainder == 0"
//@end

//@cut fn path=src/readers/blockreader.rs impl=BlockReader name=blockoffset_last ret=r
//@spec
    requires self.wf()
    ensures r as int == sp_last(self.sp_filesz(), self.blocksz as int)
//@at_entry
    proof { lemma_count_pos(self.sp_filesz(), self.blocksz as int); }
//@mutate "as BlockOffset) - 1" "as BlockOffset) - 0"
//@end

//@cut fn path=src/readers/blockreader.rs impl=BlockReader name=blocksz_at_blockoffset ret=r
//@spec
    requires
        self.wf(),
        *blockoffset as int <= sp_last(self.sp_filesz(), self.blocksz as int),
    ensures
        r as int == sp_blocksz_at(*blockoffset as int, self.blocksz as int, self.sp_filesz()),
        self.sp_filesz() > 0 ==> 0 < r <= self.blocksz,
//@end
}


// ---- real: LinePart / Line (src/data/line.rs)
//@cut type kind=struct path=src/data/line.rs name=LinePart derives=
//@replace "    fileoffset: FileOffset" "    pub fileoffset: FileOffset"
//@replace "    blockoffset: BlockOffset" "    pub blockoffset: BlockOffset"
//@end
//@cut type kind=struct path=src/data/line.rs name=Line derives=
//@replace "pub(crate) lineparts" "pub lineparts"
//@end

/// representation invariant of a LinePart, for every block size
pub open spec fn lp_wf(lp: LinePart) -> bool {
    &&& lp.blocksz >= 1
    &&& lp.blockoffset as int == lp.fileoffset as int / lp.blocksz as int
    &&& lp.blocki_beg as int == lp.fileoffset as int % lp.blocksz as int
    &&& lp.blocki_beg < lp.blocki_end
    &&& lp.blocki_end as int <= lp.blocksz as int
    &&& lp.blocki_end - lp.blocki_beg <= lp.blockp@.len()
    &&& lp.blockp@.len() <= lp.blocksz as int
}
pub open spec fn lp_len(lp: LinePart) -> int { lp.blocki_end - lp.blocki_beg }

impl LinePart {
//@cut fn path=src/data/line.rs impl=LinePart name=new ret=r
//@spec
    requires
        blocksz >= 1,
        fileoffset < u64::MAX,
        (blockoffset as int + 1) * blocksz as int <= u64::MAX,
        blockoffset as int == fileoffset as int / blocksz as int,
        blocki_beg as int == fileoffset as int % blocksz as int,
        blocki_beg < blocki_end,
        blocki_end as int <= blocksz as int,
        blocki_end - blocki_beg <= blockp@.len(),
        blockp@.len() <= blocksz as int,
    ensures
        lp_wf(r),
        r.blockp == blockp, r.blocki_beg == blocki_beg, r.blocki_end == blocki_end,
        r.fileoffset == fileoffset, r.blockoffset == blockoffset, r.blocksz == blocksz,
//@at_entry
        proof {
            lemma_fundamental_div_mod(fileoffset as int, blocksz as int);
            lemma_mod_bound(fileoffset as int, blocksz as int);
            assert(blocksz as int * (fileoffset as int / blocksz as int) == (blockoffset as int) * blocksz as int) by (nonlinear_arith)
                requires blockoffset as int == fileoffset as int / blocksz as int;
            assert((blockoffset as int + 1) * blocksz as int == blockoffset as int * blocksz as int + blocksz as int) by (nonlinear_arith);
            assert(blockoffset as int * blocksz as int >= 0) by (nonlinear_arith) requires blocksz >= 1;
        }
//@end
//@cut fn path=src/data/line.rs impl=LinePart name=len ret=r
//@spec
    requires self.blocki_beg <= self.blocki_end
    ensures r as int == lp_len(*self)
//@mutate "self.blocki_end - self.blocki_beg" "self.blocki_end - self.blocki_beg + 1"
//@end
//@cut fn path=src/data/line.rs impl=LinePart name=is_empty ret=r
//@spec
    requires self.blocki_beg <= self.blocki_end
    ensures r == (lp_len(*self) == 0)
//@end
//@cut fn path=src/data/line.rs impl=LinePart name=fileoffset_begin ret=r
//@spec
    ensures r == self.fileoffset
//@end
//@cut fn path=src/data/line.rs impl=LinePart name=blockoffset ret=r
//@spec
    ensures r == self.blockoffset
//@end
//@cut fn path=src/data/line.rs impl=LinePart name=count_bytes ret=r
//@spec
    requires self.blocki_beg <= self.blocki_end
    ensures r as int == lp_len(*self)
//@end
}

/// sum of the part lengths
pub open spec fn parts_len(s: Seq<LinePart>) -> int
    decreases s.len()
{
    if s.len() == 0 { 0 } else { parts_len(s.drop_last()) + lp_len(s.last()) }
}
/// a Line as the line reader builds it: parts are well formed, in file order, and contiguous in the file
pub open spec fn line_wf(l: Line) -> bool {
    &&& l.lineparts@.len() >= 1
    &&& forall|i: int| 0 <= i < l.lineparts@.len() ==> lp_wf(#[trigger] l.lineparts@[i])
    &&& forall|i: int| 0 <= i < l.lineparts@.len() - 1 ==>
            (#[trigger] l.lineparts@[i + 1]).fileoffset as int == l.lineparts@[i].fileoffset as int + lp_len(l.lineparts@[i])
}
pub proof fn lemma_parts_len(l: Line, k: int)
    requires line_wf(l), 1 <= k <= l.lineparts@.len()
    ensures
        parts_len(l.lineparts@.take(k)) == l.lineparts@[k - 1].fileoffset as int + lp_len(l.lineparts@[k - 1]) - l.lineparts@[0].fileoffset as int,
        parts_len(l.lineparts@.take(k)) >= k,
    decreases k
{
    let s = l.lineparts@.take(k);
    assert(s.last() == l.lineparts@[k - 1]);
    assert(s.drop_last() =~= l.lineparts@.take(k - 1));
    if k == 1 {
        assert(parts_len(s.drop_last()) == 0);
    } else {
        lemma_parts_len(l, k - 1);
        assert(l.lineparts@[(k - 2) + 1] == l.lineparts@[k - 1]);
    }
}

impl Line {
//@cut fn path=src/data/line.rs impl=Line name=append
//@spec
    requires
        old(self).lineparts@.len() > 0 ==> old(self).lineparts@.last().blockoffset <= linepart.blockoffset
            && old(self).lineparts@.last().fileoffset < linepart.fileoffset,
    ensures
        final(self).lineparts@ == old(self).lineparts@.push(linepart),
//@end
//@cut fn path=src/data/line.rs impl=Line name=prepend
//@spec
    requires
        old(self).lineparts@.len() > 0 ==> old(self).lineparts@[0].blockoffset >= linepart.blockoffset
            && old(self).lineparts@[0].fileoffset > linepart.fileoffset,
    ensures
        final(self).lineparts@ == old(self).lineparts@.insert(0, linepart),
//@end
//@cut fn path=src/data/line.rs impl=Line name=fileoffset_begin ret=r
//@spec
    requires self.lineparts@.len() > 0
    ensures r == self.lineparts@[0].fileoffset
//@end
//@cut fn path=src/data/line.rs impl=Line name=fileoffset_end ret=r
//@spec
    requires line_wf(*self), parts_len(self.lineparts@) + self.lineparts@[0].fileoffset <= u64::MAX
    ensures
        r as int == self.lineparts@.last().fileoffset + lp_len(self.lineparts@.last()) - 1,
        r as int == self.lineparts@[0].fileoffset + parts_len(self.lineparts@) - 1,
//@at_entry
        proof { lemma_parts_len(*self, self.lineparts@.len() as int); assert(self.lineparts@.take(self.lineparts@.len() as int) =~= self.lineparts@); }
//@end
//@cut fn path=src/data/line.rs impl=Line name=blockoffset_first ret=r
//@spec
    requires self.lineparts@.len() > 0
    ensures r == self.lineparts@[0].blockoffset
//@end
//@cut fn path=src/data/line.rs impl=Line name=blockoffset_last ret=r
//@spec
    requires self.lineparts@.len() > 0
    ensures r == self.lineparts@.last().blockoffset
//@end
//@cut fn path=src/data/line.rs impl=Line name=occupies_one_block ret=r
//@spec
    requires self.lineparts@.len() > 0
    ensures r == (self.lineparts@[0].blockoffset == self.lineparts@.last().blockoffset)
//@end
//@cut fn path=src/data/line.rs impl=Line name=len ret=r
//@spec
    requires line_wf(*self), parts_len(self.lineparts@) + self.lineparts@[0].fileoffset <= u64::MAX
    ensures r as int == parts_len(self.lineparts@)   // C12: independent of how block boundaries cut the line
//@at_entry
        proof { lemma_parts_len(*self, self.lineparts@.len() as int); assert(self.lineparts@.take(self.lineparts@.len() as int) =~= self.lineparts@); }
//@mutate "+ 1) as usize" "+ 0) as usize"
//@end
//@cut fn path=src/data/line.rs impl=Line name=count_lineparts ret=r
//@spec
    ensures r == self.lineparts@.len()
//@end
//@cut fn path=src/data/line.rs impl=Line name=count_bytes ret=r
//@replace "for lp in self.lineparts.iter()" "for lp in it: self.lineparts.iter()"
//@spec
    requires line_wf(*self), parts_len(self.lineparts@) + self.lineparts@[0].fileoffset <= u64::MAX
    ensures r as int == parts_len(self.lineparts@)
//@loop 1
        invariant
            line_wf(*self), parts_len(self.lineparts@) + self.lineparts@[0].fileoffset <= u64::MAX,
            it.seq().len() == self.lineparts@.len(),
            forall|i: int| 0 <= i < self.lineparts@.len() ==> *it.seq()[i] == self.lineparts@[i],
            cb as int == parts_len(self.lineparts@.take(it.index@ as int)),
//@before "cb += lp.count_bytes()"
            proof {
                let k = it.index@ as int;
                lemma_parts_len(*self, k + 1);
                lemma_parts_len(*self, self.lineparts@.len() as int);
                assert(self.lineparts@.take(k + 1).drop_last() =~= self.lineparts@.take(k));
                assert(self.lineparts@.take(k + 1).last() == self.lineparts@[k]);
                assert(self.lineparts@.take(self.lineparts@.len() as int) =~= self.lineparts@);
                lemma_parts_len_mono(*self, k + 1, self.lineparts@.len() as int);
            }
//@before_tail
        proof { assert(self.lineparts@.take(self.lineparts@.len() as int) =~= self.lineparts@); }
//@end
}

pub proof fn lemma_parts_len_mono(l: Line, j: int, k: int)
    requires line_wf(l), 1 <= j <= k <= l.lineparts@.len()
    ensures parts_len(l.lineparts@.take(j)) <= parts_len(l.lineparts@.take(k))
    decreases k - j
{
    if j < k {
        lemma_parts_len_mono(l, j, k - 1);
        assert(l.lineparts@.take(k).drop_last() =~= l.lineparts@.take(k - 1));
        assert(l.lineparts@.take(k).last() == l.lineparts@[k - 1]);
    }
}

// ---- lemmas about the spec (C12 is stated here)
pub proof fn lemma_count_pos(filesz: int, bsz: int)
    requires filesz >= 0, bsz >= 1
    ensures
        filesz > 0 ==> sp_count_blocks(filesz, bsz) >= 1,
        filesz == 0 ==> sp_count_blocks(filesz, bsz) == 0,
        // count = ceil: (count-1)*bsz < filesz <= count*bsz
        filesz > 0 ==> (sp_count_blocks(filesz, bsz) - 1) * bsz < filesz <= sp_count_blocks(filesz, bsz) * bsz,
{
    lemma_fundamental_div_mod(filesz, bsz);
    lemma_mod_bound(filesz, bsz);
    lemma_div_pos_is_pos(filesz, bsz);
    let q = filesz / bsz;
    assert(bsz * q == q * bsz) by (nonlinear_arith);
    assert((q + 1) * bsz == q * bsz + bsz) by (nonlinear_arith);
    assert((q - 1) * bsz == q * bsz - bsz) by (nonlinear_arith);
    if filesz > 0 && filesz % bsz == 0 {
        assert(q >= 1) by (nonlinear_arith) requires q * bsz == filesz, filesz > 0, bsz >= 1, q >= 0;
    }
}

pub proof fn lemma_blocksz_at(bo: int, bsz: int, filesz: int)
    requires bsz >= 1, filesz >= 0, 0 <= bo <= sp_last(filesz, bsz)
    ensures
        filesz > 0 ==> 0 < sp_blocksz_at(bo, bsz, filesz) <= bsz,
        filesz > 0 && bo < sp_last(filesz, bsz) ==> sp_blocksz_at(bo, bsz, filesz) == bsz,
        filesz > 0 && bo == sp_last(filesz, bsz) && filesz % bsz != 0 ==> sp_blocksz_at(bo, bsz, filesz) == filesz % bsz,
        filesz > 0 && bo == sp_last(filesz, bsz) && filesz % bsz == 0 ==> sp_blocksz_at(bo, bsz, filesz) == bsz,
        filesz == 0 ==> sp_blocksz_at(bo, bsz, filesz) == 0,
{
    if filesz == 0 { assert(bo == 0); assert(bo * bsz == 0) by (nonlinear_arith) requires bo == 0; }
    lemma_count_pos(filesz, bsz);
    lemma_fundamental_div_mod(filesz, bsz);
    lemma_mod_bound(filesz, bsz);
    let q = filesz / bsz;
    let last = sp_last(filesz, bsz);
    assert(bsz * q == q * bsz) by (nonlinear_arith);
    if filesz > 0 {
        assert(bo * bsz <= last * bsz) by (nonlinear_arith) requires bo <= last, bsz >= 1;
        if bo < last {
            assert((bo + 1) * bsz <= last * bsz) by (nonlinear_arith) requires bo + 1 <= last, bsz >= 1;
            assert((bo + 1) * bsz == bo * bsz + bsz) by (nonlinear_arith);
        }
        if filesz % bsz == 0 {
            assert((q - 1) * bsz == q * bsz - bsz) by (nonlinear_arith);
        }
    }
}

/// C12, offsets: (block, index) <-> file offset is a bijection for every block size
pub proof fn lemma_roundtrip(fo: int, bsz: int)
    requires fo >= 0, bsz >= 1
    ensures
        fo == (fo / bsz) * bsz + fo % bsz,
        0 <= fo % bsz < bsz,
        forall|b: int, i: int| b >= 0 && 0 <= i < bsz ==> #[trigger] ((b * bsz + i) / bsz) == b,
        forall|b: int, i: int| b >= 0 && 0 <= i < bsz ==> #[trigger] ((b * bsz + i) % bsz) == i,
{
    lemma_fundamental_div_mod(fo, bsz);
    lemma_mod_bound(fo, bsz);
    assert(bsz * (fo / bsz) == (fo / bsz) * bsz) by (nonlinear_arith);
    assert forall|b: int, i: int| b >= 0 && 0 <= i < bsz implies #[trigger] ((b * bsz + i) / bsz) == b by {
        lemma_fundamental_div_mod_converse(b * bsz + i, bsz, b, i);
    }
    assert forall|b: int, i: int| b >= 0 && 0 <= i < bsz implies #[trigger] ((b * bsz + i) % bsz) == i by {
        lemma_fundamental_div_mod_converse(b * bsz + i, bsz, b, i);
    }
}

/// C12, partition: the blocks [bo*bsz, bo*bsz + blocksz_at(bo)) for bo = 0..=last are disjoint,
/// ordered, and cover exactly [0, filesz): every file byte lies in exactly one block, at index fo % bsz.
pub proof fn lemma_partition(fo: int, bsz: int, filesz: int)
    requires bsz >= 1, 0 <= fo < filesz
    ensures
        0 <= fo / bsz <= sp_last(filesz, bsz),
        (fo / bsz) * bsz <= fo < (fo / bsz) * bsz + sp_blocksz_at(fo / bsz, bsz, filesz),
        fo % bsz < sp_blocksz_at(fo / bsz, bsz, filesz),
        forall|b: int| 0 <= b <= sp_last(filesz, bsz) && b * bsz <= fo < b * bsz + #[trigger] sp_blocksz_at(b, bsz, filesz) ==> b == fo / bsz,
{
    lemma_roundtrip(fo, bsz);
    lemma_count_pos(filesz, bsz);
    lemma_div_pos_is_pos(fo, bsz);
    let b0 = fo / bsz;
    let last = sp_last(filesz, bsz);
    // b0 <= last: otherwise b0*bsz >= count*bsz >= filesz > fo
    if b0 > last {
        assert(b0 * bsz >= (last + 1) * bsz) by (nonlinear_arith) requires b0 >= last + 1, bsz >= 1;
        assert(false);
    }
    lemma_blocksz_at(b0, bsz, filesz);
    assert forall|b: int| 0 <= b <= last && b * bsz <= fo < b * bsz + #[trigger] sp_blocksz_at(b, bsz, filesz) implies b == b0 by {
        lemma_blocksz_at(b, bsz, filesz);
        let i = fo - b * bsz;
        assert(0 <= i < bsz);
        lemma_fundamental_div_mod_converse(fo, bsz, b, i);
    }
}

/// C12, block-size independence: the same file byte is addressed whatever the block size.
pub proof fn lemma_blocksz_independent(fo: int, bsz1: int, bsz2: int)
    requires fo >= 0, bsz1 >= 1, bsz2 >= 1
    ensures (fo / bsz1) * bsz1 + fo % bsz1 == (fo / bsz2) * bsz2 + fo % bsz2
{
    lemma_roundtrip(fo, bsz1);
    lemma_roundtrip(fo, bsz2);
}

// ---- vacuity guards
pub proof fn blocksz_at_pre__canary(bo: int, bsz: int, filesz: int)
    requires bsz >= 1, filesz >= 0, 0 <= bo <= sp_last(filesz, bsz)
    ensures false
{}

} // verus!
fn main() {}
