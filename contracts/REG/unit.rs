// UNIT REG — which sources the coordinator expects to hear from (C06): the `FileValid` arm of the first loop of processing_loop
// (src/bin/s4.rs).  Later the coordinator starts printing only once every source in `map_pathid_received_fileinfo` has sent its
// FileInfo, and it spawns a worker (with a channel) exactly for the sources in `map_pathid_path`.  So the two must list the same
// sources: one that is expected to report but never gets a worker would keep the gate shut for good (nothing is printed, every
// other source is left undrained); one with a worker that is not expected would be printed before its first message is known.
// Assumed by contract (stand-ins): load_library_systemd, fpath_to_path / Path::metadata / Metadata::len, the FileType
// predicates; vstd's HashMap / BTreeMap specs.
#![allow(unused_imports, non_camel_case_types, dead_code, unused_variables, unused_parens, unused_mut, unused_assignments, non_snake_case, unused_labels)]
use vstd::prelude::*;
use vstd::std_specs::btree::*;
use vstd::std_specs::hash::*;
use std::collections::{BTreeMap, HashMap};
verus! {

pub type PathId = usize;
pub type FileSz = u64;
#[verifier::external_body]
pub struct FPath { _p: u8 }
impl Clone for FPath { #[verifier::external_body] fn clone(&self) -> (r: Self) ensures r == *self { unimplemented!() } }
#[verifier::external_body]
pub struct String { _p: u8 }
//@cut type kind=enum path=src/common.rs name=FileTypeArchive derives=Clone,Copy
//@end
//@cut type kind=enum path=src/common.rs name=FileTypeFixedStruct derives=Clone,Copy
//@end
//@cut type kind=enum path=src/common.rs name=FileTypeTextEncoding derives=Clone,Copy
//@end
//@cut type kind=enum path=src/common.rs name=FileType derives=Clone,Copy
//@end
//@cut type kind=enum path=src/common.rs name=LogMessageType derives=Clone,Copy
//@replace "#[default]" ""
//@end
impl FileType {
    // assumed (src/common.rs): the classification predicates
    #[verifier::external_body]
    pub fn is_journal(&self) -> (r: bool) ensures r == (*self is Journal) { unimplemented!() }
    #[verifier::external_body]
    pub fn is_archived(&self) -> bool { unimplemented!() }
    #[verifier::external_body]
    pub fn to_logmessagetype(&self) -> LogMessageType { unimplemented!() }
}
//@cut type kind=enum path=src/readers/filepreprocessor.rs name=ProcessPathResult derives=
//@end
#[verifier::external_body]
pub struct DlErr { _p: u8 }
pub enum LoadLibraryError { Ok, Err(DlErr), PrevErr }
#[verifier::external_body]
pub fn load_library_systemd() -> LoadLibraryError { unimplemented!() }
#[verifier::external_body]
pub struct PathStd { _p: u8 }
#[verifier::external_body]
pub struct Metadata { _p: u8 }
#[verifier::external_body]
pub struct IoErr { _p: u8 }
impl IoErr { #[verifier::external_body] pub fn to_string(&self) -> String { unimplemented!() } }
impl Metadata { #[verifier::external_body] pub fn len(&self) -> u64 { unimplemented!() } }
impl PathStd { #[verifier::external_body] pub fn metadata(&self) -> core::result::Result<Metadata, IoErr> { unimplemented!() } }
#[verifier::external_body]
pub fn fpath_to_path(p: &FPath) -> PathStd { unimplemented!() }
//@opaque_consts_here
//@cut type kind=const path=src/common.rs name=FILE_TOO_SMALL_SZ
//@end
//@cut type kind=const path=src/libload/systemd_dlopen2.rs name=LIB_NAME_SYSTEMD
//@replace "&str" "&'static str"
//@end
pub type MapPathIdToProcessPathResult = HashMap<PathId, ProcessPathResult>;
pub type MapPathIdToProcessPathResultOrdered = BTreeMap<PathId, ProcessPathResult>;
pub type MapPathIdToFPath = BTreeMap<PathId, FPath>;
pub type MapPathIdToFileType = HashMap<PathId, FileType>;
pub type MapPathIdToLogMessageType = HashMap<PathId, LogMessageType>;

#[verifier::exec_allows_no_decreases_clause]
pub fn pl0_register(
    pathid_counter: PathId,
    processpathresult: ProcessPathResult,
    map_pathid_results: &mut MapPathIdToProcessPathResult,
    map_pathid_results_invalid: &mut MapPathIdToProcessPathResultOrdered,
    map_pathid_path: &mut MapPathIdToFPath,
    map_pathid_received_fileinfo: &mut HashMap<PathId, bool>,
    map_pathid_filetype: &mut MapPathIdToFileType,
    map_pathid_logmessagetype: &mut MapPathIdToLogMessageType,
    paths_total_in: usize,
) -> (paths_total_out: usize)
    requires
        paths_total_in < usize::MAX - 1,
        old(map_pathid_received_fileinfo)@.dom() =~= old(map_pathid_path)@.dom(),
    ensures
        // C06: the sources expected to send a FileInfo are exactly the sources that will be given a worker and a channel
        final(map_pathid_received_fileinfo)@.dom() =~= final(map_pathid_path)@.dom(),
        // ... and a newly expected source has not reported yet
        forall|k: PathId| #[trigger] final(map_pathid_received_fileinfo)@.contains_key(k) && !old(map_pathid_received_fileinfo)@.contains_key(k) ==> !final(map_pathid_received_fileinfo)@[k],
        forall|k: PathId| #[trigger] old(map_pathid_received_fileinfo)@.contains_key(k) && k != pathid_counter ==> final(map_pathid_received_fileinfo)@.contains_key(k) && final(map_pathid_received_fileinfo)@[k] == old(map_pathid_received_fileinfo)@[k],
{
    proof { broadcast use group_btree_axioms; broadcast use vstd::std_specs::hash::group_hash_axioms; }
    let mut paths_total: usize = paths_total_in;
    loop
        invariant_except_break
            paths_total == paths_total_in,
            map_pathid_received_fileinfo@ == old(map_pathid_received_fileinfo)@, map_pathid_path@ == old(map_pathid_path)@,
            old(map_pathid_received_fileinfo)@.dom() =~= old(map_pathid_path)@.dom(), paths_total_in < usize::MAX - 1,
        ensures
            map_pathid_received_fileinfo@.dom() =~= map_pathid_path@.dom(), paths_total <= paths_total_in + 1,
            forall|k: PathId| #[trigger] map_pathid_received_fileinfo@.contains_key(k) && !old(map_pathid_received_fileinfo)@.contains_key(k) ==> !map_pathid_received_fileinfo@[k],
            forall|k: PathId| #[trigger] old(map_pathid_received_fileinfo)@.contains_key(k) && k != pathid_counter ==> map_pathid_received_fileinfo@.contains_key(k) && map_pathid_received_fileinfo@[k] == old(map_pathid_received_fileinfo)@[k],
    {
        match processpathresult {
            ProcessPathResult::FileValid(ref path, ref filetype) =>
//@cut slice path=src/bin/s4.rs fn=processing_loop anchor="ProcessPathResult::FileValid(ref path, ref filetype) =>" take=arm label=PL0
//@replace "continue;" "break;" count=*
//@end
            _ => {}
        }
        break;
    }
    paths_total
}


// ---- the worker spawn loop: a source is listened to (has a registered channel) exactly when its worker was started
#[verifier::external_body]
pub struct ChanSendDatum { _p: u8 }
#[verifier::external_body]
pub struct ChanRecvDatum { _p: u8 }
#[verifier::external_body]
pub struct ThreadInitData { _p: u8 }
#[verifier::external_body]
pub struct JoinStub { _p: u8 }
#[verifier::external_body]
pub struct ColorStub { _p: u8 }
pub type MapPathIdChanRecvDatum = BTreeMap<PathId, ChanRecvDatum>;
pub type MapPathIdToColor = HashMap<PathId, ColorStub>;
/// stand-in (R9) for `crossbeam_channel::bounded(CHANNEL_CAPACITY)`
#[verifier::external_body]
pub fn verif_bounded() -> (ChanSendDatum, ChanRecvDatum) { unimplemented!() }
/// stand-in (R9) for `thread::Builder::new().name(..).spawn(move || exec_fileprocessor_thread(chan_send_dt, thread_data))`
#[verifier::external_body]
pub fn verif_spawn(name: FPath, chan_send_dt: ChanSendDatum, thread_data: ThreadInitData) -> core::result::Result<JoinStub, IoErr> { unimplemented!() }
#[verifier::external_body]
pub fn basename(path: &FPath) -> FPath { unimplemented!() }

#[verifier::exec_allows_no_decreases_clause]
pub fn pl0_spawn(
    pathid: &PathId,
    path: &FPath,
    thread_data: ThreadInitData,
    map_pathid_chanrecvdatum: &mut MapPathIdChanRecvDatum,
    map_pathid_color: &mut MapPathIdToColor,
    thread_count_in: usize,
    thread_err_count_in: usize,
) -> (r: (usize, usize))
    requires thread_count_in < usize::MAX, thread_err_count_in < usize::MAX, !old(map_pathid_chanrecvdatum)@.contains_key(*pathid)
    ensures
        // C06: the coordinator listens to a source (a channel is registered for it) exactly when its worker was started:
        // a channel whose worker never started would never be closed, and the coordinator would wait on it for ever
        final(map_pathid_chanrecvdatum)@.contains_key(*pathid) <==> r.0 == thread_count_in + 1,
        r.0 == thread_count_in + 1 || (r.0 == thread_count_in && r.1 == thread_err_count_in + 1),
        forall|k: PathId| k != *pathid ==> (#[trigger] final(map_pathid_chanrecvdatum)@.contains_key(k) <==> old(map_pathid_chanrecvdatum)@.contains_key(k)),
{
    proof { broadcast use group_btree_axioms; broadcast use vstd::std_specs::hash::group_hash_axioms; }
    let mut thread_count: usize = thread_count_in;
    let mut thread_err_count: usize = thread_err_count_in;
    loop
        invariant_except_break
            thread_count == thread_count_in, thread_err_count == thread_err_count_in, thread_count_in < usize::MAX, thread_err_count_in < usize::MAX,
            map_pathid_chanrecvdatum@ == old(map_pathid_chanrecvdatum)@, !old(map_pathid_chanrecvdatum)@.contains_key(*pathid),
        ensures
            map_pathid_chanrecvdatum@.contains_key(*pathid) <==> thread_count == thread_count_in + 1,
            thread_count == thread_count_in + 1 || (thread_count == thread_count_in && thread_err_count == thread_err_count_in + 1),
            forall|k: PathId| k != *pathid ==> (#[trigger] map_pathid_chanrecvdatum@.contains_key(k) <==> old(map_pathid_chanrecvdatum)@.contains_key(k)),
    {
//@cut slice path=src/bin/s4.rs fn=processing_loop anchor="let (chan_send_dt, chan_recv_dt): (ChanSendDatum, ChanRecvDatum) =" take=range end_anchor="match thread::Builder::new()" label=PL0-SPAWN
//@replace "crossbeam_channel::bounded(CHANNEL_CAPACITY)" "verif_bounded()"
//@replace "MAP_PATHID_CHANRECVDATUM.write().unwrap()" "map_pathid_chanrecvdatum" count=2
//@replace "thread::Builder::new() .name(basename_.clone()) .spawn(move || exec_fileprocessor_thread(chan_send_dt, thread_data))" "verif_spawn(basename_.clone(), chan_send_dt, thread_data)" ws=1
//@replace "continue;" "break;"
//@end
        break;
    }
    (thread_count, thread_err_count)
}

/// vacuity guard: must NOT verify
pub proof fn reg__canary(a: Map<PathId, bool>, b: Map<PathId, FPath>)
    requires a.dom() =~= b.dom(), a.contains_key(3)
    ensures false
{}

} // verus!
fn main() {}
