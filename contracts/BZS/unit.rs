// UNIT BZS — one datetime notation per file (C02: "message boundaries are decided with the notation the file is found to use"):
// SyslogProcessor::blockzero_analysis_syslines (src/readers/syslogprocessor.rs) reads the first messages of block zero with
// every notation allowed, lets SyslineReader::dt_patterns_analysis keep one (unit DPA: the one with most matches), and -- when more
// than one notation had matched -- must forget the messages already stored and read them again with the kept notation, because a
// stored message whose first line was recognised by a discarded notation has boundaries the rest of the run would not reproduce.
// The whole function is under contract; the SyslineReader is a stand-in described by four ghost observers:
//   cnt()      notations currently in use                 narrowed()  dt_patterns_analysis has kept one
//   dirty()    the store may hold a message recognised by a notation other than the kept one
//   found_n()  messages (a trailing partial one included) found since the store was last cleared
// Assumed by contract (stand-ins): find_sysline_in_block, clear_syslines, dt_patterns_counts_in_use, dt_patterns_analysis
// (r ==> narrowed, cnt == 1, dirty == (more than one notation was in use)), read_block(0), the block-zero minimum table.
#![allow(unused_imports, non_camel_case_types, dead_code, unused_variables, unused_parens, unused_mut, unused_assignments, non_snake_case)]
use vstd::prelude::*;
use std::sync::Arc;
verus! {

pub type BlockOffset = u64;
pub type BlockSz = u64;
pub type FileOffset = u64;
pub type Count = u64;
pub type Block = Vec<u8>;
pub type BlockP = Arc<Block>;
#[verifier::external_body]
pub struct Error { _p: u8 }
#[verifier::external_body]
pub struct Sysline { _p: u8 }
pub type SyslineP = Arc<Sysline>;
#[verifier::external_body]
pub struct FPath { _p: u8 }
//@cut type kind=enum path=src/common.rs name=ResultS3 derives=
//@end
//@cut type kind=enum path=src/common.rs name=FileProcessingResult derives=
//@end
pub type FileProcessingResultBlockZero = FileProcessingResult<Error>;
pub type ResultS3SyslineFind = ResultS3<(FileOffset, SyslineP), Error>;
pub type ResultS3ReadBlock = ResultS3<BlockP, Error>;
//@cut type kind=enum path=src/readers/syslogprocessor.rs name=ProcessingStage derives=Clone,Copy
//@end

pub uninterp spec fn found_min_for(blocksz: BlockSz) -> Count;
#[verifier::external_body]
pub fn verif_found_min(blocksz: BlockSz) -> (r: Count) ensures r == found_min_for(blocksz) { unimplemented!() }  // stand-in: *BLOCKZERO_ANALYSIS_SYSLINE_COUNT_MIN_MAP.get(&blocksz0).unwrap()
#[verifier::external_body]
pub fn verif_cfg_debug() -> bool { unimplemented!() }

pub struct BlockReader { pub ghost blocksz0: BlockSz, pub ghost drop: bool }
impl BlockReader {
    #[verifier::external_body]
    pub fn read_block(&mut self, blockoffset: BlockOffset) -> (r: ResultS3ReadBlock)
        ensures *final(self) == *old(self), r is Found && blockoffset == 0 ==> r->Found_0@.len() == old(self).blocksz0
    { unimplemented!() }
    #[verifier::external_body]
    pub fn disable_drop_data(&mut self) ensures final(self).blocksz0 == old(self).blocksz0, !final(self).drop { unimplemented!() }  // (panics if already disabled: outside the property)
}
pub struct LineReader { pub blockreader: BlockReader }
pub struct SyslineReader {
    pub linereader: LineReader,
    pub ghost cnt: nat, pub ghost narrowed: bool, pub ghost dirty: bool, pub ghost found_n: nat,
}
impl SyslineReader {
    #[verifier::external_body]
    pub fn block_offset_at_file_offset(&self, fileoffset: FileOffset) -> (r: BlockOffset) { unimplemented!() }
    #[verifier::external_body]
    pub fn find_sysline_in_block(&mut self, fileoffset: FileOffset) -> (r: (ResultS3SyslineFind, bool))
        ensures
            final(self).linereader == old(self).linereader, final(self).narrowed == old(self).narrowed,
            old(self).narrowed ==> final(self).cnt == old(self).cnt && final(self).dirty == old(self).dirty,
            final(self).found_n == old(self).found_n + (if r.0 is Found || (r.0 is Done && r.1) { 1nat } else { 0nat }),
    { unimplemented!() }
    #[verifier::external_body]
    pub fn clear_syslines(&mut self)
        ensures final(self).linereader == old(self).linereader, final(self).narrowed == old(self).narrowed, final(self).cnt == old(self).cnt,
            !final(self).dirty, final(self).found_n == 0
    { unimplemented!() }
    #[verifier::external_body]
    pub fn dt_patterns_counts_in_use(&self) -> (r: usize) ensures r as nat == self.cnt { unimplemented!() }
    #[verifier::external_body]
    pub fn dt_patterns_analysis(&mut self) -> (r: bool)
        ensures final(self).linereader == old(self).linereader, final(self).found_n == old(self).found_n,
            r ==> final(self).narrowed && final(self).cnt == 1 && final(self).dirty == (old(self).cnt > 1),
    { unimplemented!() }
    #[verifier::external_body]
    pub fn is_streamed_file(&self) -> (r: bool) { unimplemented!() }
    #[verifier::external_body]
    pub fn dt_pattern_has_year(&self) -> (r: bool) { unimplemented!() }
}
pub struct SyslogProcessor { pub syslinereader: SyslineReader }
impl SyslogProcessor {
    pub const DT_PATTERN_MAX: usize = 1;
    #[verifier::external_body]
    pub fn assert_stage(&self, stage: ProcessingStage) { unimplemented!() }
    #[verifier::external_body]
    pub fn set_error(&mut self, err: &Error) ensures *final(self) == *old(self) { unimplemented!() }
    #[verifier::external_body]
    pub fn is_drop_data(&self) -> (r: bool) ensures r == self.syslinereader.linereader.blockreader.drop { unimplemented!() }
    #[verifier::external_body]
    pub fn path(&self) -> (r: &FPath) { unimplemented!() }

//@cut fn path=src/readers/syslogprocessor.rs impl=SyslogProcessor name=blockzero_analysis_syslines ret=r
//@replace "pub(super) fn" "pub fn"
//@replace "*BLOCKZERO_ANALYSIS_SYSLINE_COUNT_MIN_MAP .get(&blocksz0) .unwrap()" "verif_found_min(blocksz0)" ws=1
//@replace "cfg!(debug_assertions)" "verif_cfg_debug()"
//@spec
    requires !old(self).syslinereader.narrowed, old(self).syslinereader.found_n == 0
    ensures
        // C02: a file that goes on to be processed has one notation kept, and every stored message was recognised with it
        r is FileOk ==> final(self).syslinereader.narrowed && final(self).syslinereader.cnt == 1 && !final(self).syslinereader.dirty,
        // ... and at least the required number of messages was found with it
        r is FileOk ==> final(self).syslinereader.found_n >= found_min_for(old(self).syslinereader.linereader.blockreader.blocksz0),
//@loop 1
            invariant
                self.syslinereader.linereader == old(self).syslinereader.linereader, !self.syslinereader.narrowed,
                self.syslinereader.found_n == found as nat, found <= found_min,
            decreases found_min - found
//@loop 2
                invariant
                    self.syslinereader.linereader == old(self).syslinereader.linereader, self.syslinereader.narrowed,
                    self.syslinereader.cnt == 1, !self.syslinereader.dirty,
                    self.syslinereader.found_n == found as nat, found <= found_min,
                decreases found_min - found
//@mutate "if patt_count_a > 1 {" "if patt_count_a > 2 {"
//@mutate "self.syslinereader.clear_syslines();" ""
//@end
}

} // verus!
fn main() {}
