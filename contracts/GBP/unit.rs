// UNIT GBP — Line::get_boxptrs and the four LinePart::block_boxptr* (C12): the bytes handed to the datetime parser for the range
// [a, b) of a line are exactly those bytes of the line, however block boundaries cut the line into parts (one, two, or three and
// more slices).  The line's bytes = the concatenation of its parts' bytes (the same `parts_bytes` as units PRN / LNR).
// Assumed by contract: Line::len (= sum of part lengths, proved in unit BLK); `for x in &vec` = `for x in vec.iter()`;
// vstd's specs of Vec / slice indexing / Box / the slice iterator.
#![allow(unused_imports, non_camel_case_types, dead_code, unused_variables, unused_parens, unused_mut, unused_assignments, non_snake_case)]
use vstd::prelude::*;
use std::sync::Arc;
verus! {

global size_of usize == 8;
pub type FileOffset = u64;
pub type BlockOffset = u64;
pub type BlockIndex = usize;
pub type BlockSz = u64;
pub type LineIndex = usize;
pub type Block = Vec<u8>;
pub type BlockP = Arc<Block>;
//@cut type kind=struct path=src/data/line.rs name=LinePart derives=
//@replace "    fileoffset: FileOffset" "    pub fileoffset: FileOffset"
//@replace "    blockoffset: BlockOffset" "    pub blockoffset: BlockOffset"
//@end
//@cut type kind=type path=src/data/line.rs name=LineParts
//@end
//@cut type kind=struct path=src/data/line.rs name=Line derives=
//@replace "pub(crate) lineparts" "pub lineparts"
//@end
//@cut type kind=enum path=src/data/line.rs name=LinePartPtrs derives=
//@end

/// a part is a non-empty range of its block
pub open spec fn lpok(lp: LinePart) -> bool { lp.blocki_beg < lp.blocki_end && lp.blocki_end <= lp.blockp@.len() }
pub open spec fn bytes(lp: LinePart) -> Seq<u8> { lp.blockp@.subrange(lp.blocki_beg as int, lp.blocki_end as int) }
/// bytes of a line = concatenation of its parts, in order
pub open spec fn parts_bytes(s: Seq<LinePart>) -> Seq<u8>
    decreases s.len()
{
    if s.len() == 0 { Seq::<u8>::empty() } else { parts_bytes(s.drop_last()) + bytes(s.last()) }
}
/// how many bytes the first i parts hold
pub open spec fn pre(s: Seq<LinePart>, i: int) -> int { parts_bytes(s.take(i)).len() as int }
pub open spec fn cat(v: Seq<Box<&[u8]>>) -> Seq<u8>
    decreases v.len()
{
    if v.len() == 0 { Seq::<u8>::empty() } else { cat(v.drop_last()) + (*v.last())@ }
}
/// the bytes a LinePartPtrs value denotes
pub open spec fn ptrs_bytes(p: LinePartPtrs) -> Seq<u8> {
    match p {
        LinePartPtrs::NoPtr => Seq::<u8>::empty(),
        LinePartPtrs::SinglePtr(x) => (*x)@,
        LinePartPtrs::DoublePtr(x, y) => (*x)@ + (*y)@,
        LinePartPtrs::MultiPtr(v) => cat(v@),
    }
}
pub proof fn lemma_pre(s: Seq<LinePart>, k: int)
    requires 0 <= k < s.len()
    ensures
        parts_bytes(s.take(k + 1)) == parts_bytes(s.take(k)) + bytes(s[k]),
        pre(s, k + 1) == pre(s, k) + bytes(s[k]).len(),
        pre(s, k + 1) <= parts_bytes(s).len(), pre(s, k) >= 0,
        // the first k+1 parts are a prefix of the whole line
        parts_bytes(s).subrange(0, pre(s, k + 1)) == parts_bytes(s.take(k + 1)),
    decreases s.len() - k
{
    assert(s.take(k + 1).drop_last() =~= s.take(k));
    assert(s.take(k + 1).last() == s[k]);
    if k + 1 < s.len() {
        lemma_pre(s, k + 1);
        let t = parts_bytes(s);
        assert(t.subrange(0, pre(s, k + 2)) == parts_bytes(s.take(k + 1)) + bytes(s[k + 1]));
        assert(t.subrange(0, pre(s, k + 1)) =~= t.subrange(0, pre(s, k + 2)).subrange(0, pre(s, k + 1)));
        assert((parts_bytes(s.take(k + 1)) + bytes(s[k + 1])).subrange(0, pre(s, k + 1)) =~= parts_bytes(s.take(k + 1)));
    } else {
        assert(s.take(k + 1) =~= s);
        assert(parts_bytes(s).subrange(0, pre(s, k + 1)) =~= parts_bytes(s));
    }
}
/// the bytes of part k are the bytes [pre(k), pre(k+1)) of the line
pub proof fn lemma_part_at(s: Seq<LinePart>, k: int, x: int, y: int)
    requires 0 <= k < s.len(), 0 <= x <= y <= bytes(s[k]).len()
    ensures parts_bytes(s).subrange(pre(s, k) + x, pre(s, k) + y) == bytes(s[k]).subrange(x, y), pre(s, k) + bytes(s[k]).len() <= parts_bytes(s).len(), pre(s, k) >= 0
{
    lemma_pre(s, k);
    let t = parts_bytes(s);
    let p = pre(s, k);
    assert(t.subrange(0, pre(s, k + 1)) == parts_bytes(s.take(k)) + bytes(s[k]));
    assert(t.subrange(p + x, p + y) =~= t.subrange(0, pre(s, k + 1)).subrange(p + x, p + y));
    assert((parts_bytes(s.take(k)) + bytes(s[k])).subrange(p + x, p + y) =~= bytes(s[k]).subrange(x, y));
}
pub proof fn lemma_pre0(s: Seq<LinePart>)
    ensures pre(s, 0) == 0, pre(s, s.len() as int) == parts_bytes(s).len()
{
    assert(s.take(0) =~= Seq::<LinePart>::empty());
    assert(s.take(s.len() as int) =~= s);
}
pub proof fn lemma_cat_push(v: Seq<Box<&[u8]>>, x: Box<&[u8]>)
    ensures cat(v.push(x)) == cat(v) + (*x)@
{
    assert(v.push(x).drop_last() =~= v);
}

impl LinePart {
//@cut fn path=src/data/line.rs impl=LinePart name=len ret=r
//@spec
    requires self.blocki_beg <= self.blocki_end
    ensures r as int == self.blocki_end - self.blocki_beg
//@end
//@cut fn path=src/data/line.rs impl=LinePart name=as_slice ret=r
//@spec
    // C12 / C02: what the printers write for a part is exactly its range of its block
    requires lpok(*self)
    ensures r@ == bytes(*self)
//@end
//@cut fn path=src/data/line.rs impl=LinePart name=block_boxptr ret=r
//@spec
    requires lpok(*self)
    ensures (*r)@ == bytes(*self)
//@end
//@cut fn path=src/data/line.rs impl=LinePart name=block_boxptr_a ret=r
//@spec
    requires lpok(*self), self.blocki_beg + *a < self.blocki_end
    ensures (*r)@ == bytes(*self).subrange(*a as int, bytes(*self).len() as int)
//@at_entry
        proof { assert(self.blockp@.subrange(self.blocki_beg + *a, self.blocki_end as int) =~= bytes(*self).subrange(*a as int, bytes(*self).len() as int)); }
//@end
//@cut fn path=src/data/line.rs impl=LinePart name=block_boxptr_b ret=r
//@spec
    requires lpok(*self), self.blocki_beg + *b <= self.blocki_end
    ensures (*r)@ == bytes(*self).subrange(0, *b as int)
//@at_entry
        proof { assert(self.blockp@.subrange(self.blocki_beg as int, self.blocki_beg + *b) =~= bytes(*self).subrange(0, *b as int)); }
//@end
//@cut fn path=src/data/line.rs impl=LinePart name=block_boxptr_ab ret=r
//@spec
    requires lpok(*self), *a <= *b, self.blocki_beg + *a < self.blocki_end, self.blocki_beg + *b <= self.blocki_end
    ensures (*r)@ == bytes(*self).subrange(*a as int, *b as int)
//@at_entry
        proof { assert(self.blockp@.subrange(self.blocki_beg + *a, self.blocki_beg + *b) =~= bytes(*self).subrange(*a as int, *b as int)); }
//@mutate "[(self.blocki_beg + a)..(self.blocki_beg + b)]" "[(self.blocki_beg + a)..self.blocki_end]"
//@end
}

pub open spec fn line_ok(l: Line) -> bool {
    (forall|i: int| 0 <= i < l.lineparts@.len() ==> lpok(#[trigger] l.lineparts@[i])) && parts_bytes(l.lineparts@).len() <= usize::MAX
}
impl Line {
    // assumed (proved in unit BLK): the length of a line is the sum of its parts' lengths
    #[verifier::external_body]
    pub fn len(&self) -> (r: usize) requires line_ok(*self) ensures r as int == parts_bytes(self.lineparts@).len() { unimplemented!() }

//@cut fn path=src/data/line.rs impl=Line name=get_boxptrs ret=r
//@replace "pub fn get_boxptrs" "#[verifier::exec_allows_no_decreases_clause] pub fn get_boxptrs"
//@replace "in &self.lineparts" "in self.lineparts.iter()" count=2
//@replace "Vec::<Box<&[u8]>>::with_capacity(self.lineparts.len())" "Vec::<Box<&[u8]>>::new()"
//@desugar_for 1 it exit="lemma_pre0(s); if s.len() == 1 { lemma_part_at(s, 0, a0, bytes(s[0]).len() as int); }"
//@desugar_for 2 it2 exit="lemma_pre0(s);"
//@spec
    requires
        line_ok(*self), a <= b,
        // from the call site (find_datetime_in_line passes the pattern's range start, 0 for every pattern of the table): the range
        // starts inside the first part.  (For a range that starts in a later part and spans three or more parts the second loop
        // does not reduce `b` by the skipped parts -- a latent defect no caller reaches; see DESIGN 9.6.)
        (a as int) < parts_bytes(self.lineparts@).len() ==> (a as int) < bytes(self.lineparts@[0]).len(),
    ensures
        // C12: the slices handed out, in order, are the bytes [a, b) of the line (up to its end), whatever the parts are
        (a as int) < parts_bytes(self.lineparts@).len() ==> ptrs_bytes(r) == parts_bytes(self.lineparts@).subrange(a as int, if (b as int) < parts_bytes(self.lineparts@).len() { b as int } else { parts_bytes(self.lineparts@).len() as int }),
        (a as int) >= parts_bytes(self.lineparts@).len() ==> r is NoPtr,
//@at_entry
        let ghost s = self.lineparts@;
        let ghost t = parts_bytes(s);
        let ghost a0 = a as int;
        let ghost b0 = b as int;
        proof { lemma_pre0(s); if s.len() > 0 { lemma_pre(s, 0); lemma_part_at(s, 0, 0, 0); } }
//@loop 1
            invariant_except_break
                vstd::std_specs::iter::IteratorSpec::decrease(&it.iter) is Some,
                !a_found ==> it.index@ == 0 && a1 == a0 && b1 == b0 && bptr_a is None,
                a_found ==> it.index@ == 1 && bptr_a is Some && (*bptr_a.unwrap())@ == bytes(s[0]).subrange(a0, bytes(s[0]).len() as int) && b1 + pre(s, 1) == b0 && b1 > 0,
            invariant
                it.snapshot@ == it__snap0, it.wf(), it.seq().len() == s.len(),
                forall|i: int| 0 <= i < s.len() ==> *it.seq()[i] == s[i],
                0 <= it.index@ <= it.seq().len(),
                s == self.lineparts@, t == parts_bytes(s), line_ok(*self), a0 < t.len(), a0 <= b0, a == a0, b == b0,
                s.len() > 0, a0 < bytes(s[0]).len(), pre(s, 0) == 0, pre(s, 1) == bytes(s[0]).len(), pre(s, 1) <= t.len(),
            ensures
                s == self.lineparts@, a == a0, b == b0,
                // either the line is one part and the range runs to (or past) its end ...
                bptr_a is Some ==> (*bptr_a.unwrap())@ == t.subrange(a0, t.len() as int) && b0 >= t.len(),
                // ... or the range spans three or more parts
                bptr_a is None ==> s.len() >= 2 && b0 > pre(s, 2),
            decreases vstd::std_specs::iter::IteratorSpec::decrease(&it.iter).unwrap_or(arbitrary()),
//@before "let len_ = linepart.len();" 1
            let ghost k = it__old.index@ as int;
            proof { assert(*linepart == s[k]); }
//@after "let len_ = linepart.len();" 1
            proof {
                lemma_pre(s, k);
                lemma_part_at(s, k, 0, 0);
                if k == 0 { if a1 < len_ && b1 <= len_ { lemma_part_at(s, 0, a1 as int, b1 as int); } }
                if k == 1 { if b1 <= len_ { lemma_part_at(s, 1, 0, b1 as int); lemma_part_at(s, 0, a0, bytes(s[0]).len() as int);
                    assert(t.subrange(a0, pre(s, 1)) + t.subrange(pre(s, 1), pre(s, 1) + b1) =~= t.subrange(a0, b0)); } }
            }
//@before "let mut ptrs: Vec<Box<&[u8]>>"
        proof { lemma_pre(s, 1); }
//@loop 2
            invariant_except_break
                vstd::std_specs::iter::IteratorSpec::decrease(&it2.iter) is Some,
                !a_found ==> it2.index@ == 0 && a == a0 && b == b0 && ptrs@.len() == 0 && !b_search,
                a_found ==> b_search && it2.index@ >= 1 && cat(ptrs@) == t.subrange(a0, pre(s, it2.index@ as int)) && b + pre(s, it2.index@ as int) == b0 && ptrs@.len() == it2.index@,
                it2.index@ >= 1 ==> pre(s, it2.index@ as int) >= pre(s, 1),
            invariant
                it2.snapshot@ == it2__snap0, it2.wf(), it2.seq().len() == s.len(),
                forall|i: int| 0 <= i < s.len() ==> *it2.seq()[i] == s[i],
                0 <= it2.index@ <= it2.seq().len(),
                s == self.lineparts@, t == parts_bytes(s), line_ok(*self), 0 <= a0 < t.len(), a0 <= b0,
                s.len() >= 2, a0 < bytes(s[0]).len(), pre(s, 0) == 0, pre(s, 1) == bytes(s[0]).len(), b0 > pre(s, 2), pre(s, 2) >= pre(s, 1),
                pre(s, it2.index@ as int) <= t.len(),
            ensures
                ptrs@.len() >= 2, cat(ptrs@) == t.subrange(a0, if b0 < t.len() { b0 } else { t.len() as int }),
            decreases vstd::std_specs::iter::IteratorSpec::decrease(&it2.iter).unwrap_or(arbitrary()),
//@before "let len_ = linepart.len();" 2
            let ghost k = it2__old.index@ as int;
            let ghost ptrs0 = ptrs@;
            proof { assert(*linepart == s[k]); }
//@after "let len_ = linepart.len();" 2
            proof {
                lemma_pre(s, k);
                lemma_part_at(s, k, 0, bytes(s[k]).len() as int);
                if k == 0 { lemma_part_at(s, 0, a0, bytes(s[0]).len() as int); }
                if k >= 1 && b < len_ { lemma_part_at(s, k, 0, b as int); assert(t.subrange(a0, pre(s, k)) + t.subrange(pre(s, k), pre(s, k) + b) =~= t.subrange(a0, b0)); }
                if k >= 1 {
                    assert(a_found);
                    assert(0 <= a0 <= pre(s, k));
                    assert(pre(s, k) <= pre(s, k + 1) <= t.len());
                    assert(t.subrange(a0, pre(s, k)) + t.subrange(pre(s, k), pre(s, k + 1)) =~= t.subrange(a0, pre(s, k + 1)));
                }
            }
//@after "re:ptrs\.push\(" *
                proof { lemma_cat_push(ptrs0, ptrs@.last()); assert(ptrs@ == ptrs0.push(ptrs@.last())); if ptrs0.len() == 0 { assert(cat(ptrs0) =~= Seq::<u8>::empty()); } }
//@mutate "if b_search && b < len_ {" "if b_search && b <= len_ && false {"
//@end
}


// ---- the call site: SyslineReader::find_datetime_in_line glues the slices back together before handing them to the regex
pub type Bytes = Vec<u8>;
pub type Count = u64;
#[verifier::external_body]
pub fn verif_count_inc(c: &mut Count) { unimplemented!() }
pub proof fn lemma_cat_take(v: Seq<Box<&[u8]>>, k: int)
    requires 0 <= k < v.len()
    ensures cat(v.take(k + 1)) == cat(v.take(k)) + (*v[k])@, cat(v.take(k + 1)).len() <= cat(v).len()
    decreases v.len() - k
{
    assert(v.take(k + 1).drop_last() =~= v.take(k));
    assert(v.take(k + 1).last() == v[k]);
    if k + 1 < v.len() { lemma_cat_take(v, k + 1); } else { assert(v.take(k + 1) =~= v); }
}

/// C12: the bytes the datetime regex is run on are the bytes [start, slice_end) of the line, whether they came as one, two or many slices
#[verifier::exec_allows_no_decreases_clause]
pub fn glue_slices(line: &Line, range_start: usize, slice_end: usize, get_boxptrs_singleptr: &mut Count, get_boxptrs_doubleptr: &mut Count, get_boxptrs_multiptr: &mut Count)
    requires
        line_ok(*line), range_start < slice_end, slice_end as int <= parts_bytes(line.lineparts@).len(),
        (range_start as int) < bytes(line.lineparts@[0]).len(),
{
    let ghost want = parts_bytes(line.lineparts@).subrange(range_start as int, slice_end as int);
    loop
        invariant
            line_ok(*line), range_start < slice_end, slice_end as int <= parts_bytes(line.lineparts@).len(),
            (range_start as int) < bytes(line.lineparts@[0]).len(),
            want == parts_bytes(line.lineparts@).subrange(range_start as int, slice_end as int),
        ensures true
    {
//@cut slice path=src/readers/syslinereader.rs impl=SyslineReader fn=find_datetime_in_line anchor="let mut hack_slice: Bytes;" take=range end_anchor="match line.get_boxptrs(" label=GLUE
//@replace "dtpd.range_regex.start as LineIndex" "range_start"
//@replace "slice_end as LineIndex" "slice_end"
//@replace "*get_boxptrs_singleptr += 1;" "verif_count_inc(get_boxptrs_singleptr);"
//@replace "*get_boxptrs_doubleptr += 1;" "verif_count_inc(get_boxptrs_doubleptr);"
//@replace "*get_boxptrs_multiptr += 1;" "verif_count_inc(get_boxptrs_multiptr);"
//@desugar_for 1 it exit="assert(vec_box_slice@.take(vec_box_slice@.len() as int) =~= vec_box_slice@);"
//@desugar_for 2 it2 exit="assert(v0.take(v0.len() as int) =~= v0);"
//@before "hack_slice = Bytes::with_capacity(box_slice1.len() + box_slice2.len());"
                    proof { assert(((*box_slice1)@ + (*box_slice2)@).len() == (*box_slice1)@.len() + (*box_slice2)@.len()); }
//@loop 1
                        invariant_except_break
                            vstd::std_specs::iter::IteratorSpec::decrease(&it.iter) is Some,
                        invariant
                            it.snapshot@ == it__snap0, it.wf(), it.seq().len() == vec_box_slice@.len(),
                            forall|i: int| 0 <= i < vec_box_slice@.len() ==> *it.seq()[i] == vec_box_slice@[i],
                            0 <= it.index@ <= it.seq().len(),
                            cap as int == cat(vec_box_slice@.take(it.index@ as int)).len(), cat(vec_box_slice@) == want, want.len() <= usize::MAX,
                        ensures cap as int == cat(vec_box_slice@).len(),
                        decreases vstd::std_specs::iter::IteratorSpec::decrease(&it.iter).unwrap_or(arbitrary()),
//@before "let mut cap: usize = 0;"
                    let ghost v0 = vec_box_slice@;
                    proof { assert(v0.take(0) =~= Seq::<Box<&[u8]>>::empty()); assert(v0.take(v0.len() as int) =~= v0); }
//@before "cap += box_.len();"
                        proof { lemma_cat_take(vec_box_slice@, it__old.index@ as int); }
//@loop 2
                        invariant_except_break
                            vstd::std_specs::iter::IteratorSpec::decrease(&it2.iter) is Some,
                        invariant
                            it2.snapshot@ == it2__snap0, it2.wf(), it2.seq().len() == v0.len(),
                            forall|i: int| 0 <= i < v0.len() ==> it2.seq()[i] == v0[i],
                            0 <= it2.index@ <= it2.seq().len(),
                            hack_slice@ == cat(v0.take(it2.index@ as int)), cat(v0) == want,
                        ensures hack_slice@ == cat(v0),
                        decreases vstd::std_specs::iter::IteratorSpec::decrease(&it2.iter).unwrap_or(arbitrary()),
//@before "hack_slice.extend_from_slice(*box_);" 1
                        proof { lemma_cat_take(v0, it2__old.index@ as int); }
//@end
        // C12 (named obligation): what the regex sees
        assert(slice_@ == want);
        break;
    }
}

/// vacuity guard: must NOT verify
pub proof fn gbp__canary(l: Line)
    requires line_ok(l), l.lineparts@.len() == 3, parts_bytes(l.lineparts@).len() == 10
    ensures false
{}

} // verus!
fn main() {}
