// UNIT CLI — which zone the prepended datetime field is rendered in (C13: "... in the given strftime format and requested zone"):
// the statement block of cli_process_args (src/bin/s4.rs) that turns -z TZ / -u / -l into the offset handed to every printer.
// -z TZ -> TZ; else -u -> UTC; else (-l or nothing) -> the system's local zone.  The -t/--tz-offset value (how zone-less log
// datetimes are READ) plays no part.
// Assumed by contract (stand-ins, R9): the two thread-locals FIXEDOFFSET0 (UTC) and LOCAL_NOW_OFFSET (local zone) by value;
// process::exit diverges (stand-in panic!(), must be unreachable).
#![allow(unused_imports, non_camel_case_types, dead_code, unused_variables, unused_parens, unused_mut, unused_assignments, non_snake_case)]
use vstd::prelude::*;
verus! {

#[verifier::external_body]
pub struct FixedOffset { _p: u8 }
impl Copy for FixedOffset {}
impl Clone for FixedOffset { #[verifier::external_body] fn clone(&self) -> (r: Self) ensures r == *self { unimplemented!() } }
#[verifier::external_body]
pub struct String { _p: u8 }
/// the zone of UTC / of the system the program runs on
pub uninterp spec fn utc_zone() -> FixedOffset;
pub uninterp spec fn local_zone() -> FixedOffset;
/// stand-in (R9) for `FIXEDOFFSET0.with(|fo0| *fo0)`
#[verifier::external_body]
pub fn verif_fixedoffset0() -> (r: FixedOffset) ensures r == utc_zone() { unimplemented!() }
/// stand-in (R9) for `LOCAL_NOW_OFFSET.with(|lno| *lno)`
#[verifier::external_body]
pub fn verif_local_now_offset() -> (r: FixedOffset) ensures r == local_zone() { unimplemented!() }
//@opaque_consts_here
impl String {
    #[verifier::external_body]
    pub fn from(s: VerifOpaqueConst) -> String { unimplemented!() }
}
/// the fields of the clap argument struct this block reads
pub struct CLI_Args { pub prepend_tz: Option<FixedOffset>, pub prepend_utc: bool, pub prepend_local: bool }

pub fn cli_prepend_offset(args: CLI_Args, prepend_dt_format_in: Option<String>, tz_offset: FixedOffset) -> (r: (FixedOffset, Option<String>))
    ensures
        // C13: the requested zone
        args.prepend_tz is Some ==> r.0 == args.prepend_tz.unwrap(),
        args.prepend_tz is None && args.prepend_utc ==> r.0 == utc_zone(),
        args.prepend_tz is None && !args.prepend_utc ==> r.0 == local_zone(),
        // asking for a zone turns the datetime field on (default format) unless a format was given
        (args.prepend_tz is Some || args.prepend_utc || args.prepend_local) ==> r.1 is Some,
        prepend_dt_format_in is Some ==> r.1 == prepend_dt_format_in,
{
    let mut prepend_dt_format = prepend_dt_format_in;
//@cut slice path=src/bin/s4.rs fn=cli_process_args anchor="let cli_opt_prepend_offset: FixedOffset;" take=range end_anchor="if args.prepend_tz.is_some() {" label=CLI-OFFSET
//@replace "FIXEDOFFSET0.with(|fo0| *fo0)" "verif_fixedoffset0()"
//@replace "LOCAL_NOW_OFFSET.with(|lno| *lno)" "verif_local_now_offset()" count=*
//@replace "std::process::exit(EXIT_ERR);" "panic!();"
//@end
    (cli_opt_prepend_offset, prepend_dt_format)
}

/// vacuity guard: must NOT verify
pub proof fn cli__canary()
    ensures utc_zone() == local_zone()
{}

} // verus!
fn main() {}
