// UNIT DRP — what may be dropped while streaming (C02: "no message is dropped ... truncated"): SyslogProcessor::drop_data_try
// (src/readers/syslogprocessor.rs) is called after a message has been printed and frees memory.  A streamed (compressed) file
// cannot be read again, and the next message starts in the block where the printed one ended or later -- never before the block
// where the printed one began -- so everything dropped must lie strictly before the first block of the message just printed.
// Assumed by contract (stand-in): SyslineReader::drop_data(bo) drops exactly the data whose last block is <= bo.
#![allow(unused_imports, non_camel_case_types, dead_code, unused_variables, unused_parens, unused_mut, unused_assignments, non_snake_case)]
use vstd::prelude::*;
use std::sync::Arc;
verus! {

pub type BlockOffset = u64;
#[verifier::external_body]
pub struct Sysline { _p: u8 }
pub type SyslineP = Arc<Sysline>;
impl Sysline {
    pub uninterp spec fn bo_first(&self) -> BlockOffset;
    #[verifier::external_body]
    pub fn blockoffset_first(&self) -> (r: BlockOffset) ensures r == self.bo_first() { unimplemented!() }
}
pub struct SyslogProcessor { pub drop: bool, pub ghost dropped: Option<BlockOffset> }
impl SyslogProcessor {
//@cut type kind=const path=src/readers/syslogprocessor.rs name=STREAM_STAGE_DROP depth=1
//@end
    pub fn is_drop_data(&self) -> (r: bool) ensures r == self.drop { self.drop }
    /// ghost: `dropped` = the highest block offset handed to drop_data so far
    #[verifier::external_body]
    pub fn drop_data(&mut self, blockoffset: BlockOffset) -> (r: bool)
        ensures final(self).drop == old(self).drop,
            final(self).dropped == Some(if old(self).dropped is Some && old(self).dropped.unwrap() > blockoffset { old(self).dropped.unwrap() } else { blockoffset }),
    { unimplemented!() }

//@cut fn path=src/readers/syslogprocessor.rs impl=SyslogProcessor name=drop_data_try ret=r
//@spec
    ensures
        // C02: whatever is dropped lies strictly before the first block of the message just printed
        final(self).dropped == old(self).dropped || (final(self).dropped is Some && final(self).dropped.unwrap() < syslinep.bo_first()),
//@mutate "return self.drop_data(bo_first - 2);" "return self.drop_data(bo_first);"
//@end
}

} // verus!
fn main() {}
