// UNIT LNB — LineReader::find_line_in_block / find_line, the search for the end of the line inside the block that holds the
// requested offset (C12: the same bytes for every block size).  Slices of the two functions; the block is a byte vector, the
// reader's offset arithmetic (proved in unit BLK) is assumed here by its formula.
#![allow(unused_imports, non_camel_case_types, dead_code, unused_variables, unused_parens, unused_mut, unused_assignments, non_snake_case, non_upper_case_globals)]
use vstd::prelude::*;
use std::sync::Arc;
verus! {

global size_of usize == 8;
pub type FileOffset = u64;
pub type FileSz = u64;
pub type BlockOffset = u64;
pub type BlockIndex = usize;
pub type BlockSz = u64;
pub type Block = Vec<u8>;
pub type BlockP = Arc<Block>;
//@cut type kind=const path=src/common.rs name=NLu8
//@end
#[verifier::external_body]
pub struct FPath { _p: u8 }

pub struct LineReader { pub blocksz_: BlockSz, pub filesz_: FileSz, pub charsz_: usize }
impl LineReader {
    #[verifier::external_body]
    pub fn path(&self) -> &FPath { unimplemented!() }
    pub fn filesz(&self) -> (r: FileSz) ensures r == self.filesz_ { self.filesz_ }
    /// assumed here (proved in unit BLK): offset of byte `bi` of block `bo`
    #[verifier::external_body]
    pub fn file_offset_at_block_offset_index(&self, blockoffset: BlockOffset, blockindex: BlockIndex) -> (r: FileOffset)
        requires blockoffset * self.blocksz_ + blockindex <= u64::MAX
        ensures r as int == blockoffset * self.blocksz_ + blockindex
    { unimplemented!() }
    pub fn is_fileoffset_last(&self, fileoffset: FileOffset) -> (r: bool)
        requires self.filesz_ >= 1
        ensures r == (fileoffset as int == self.filesz_ - 1)
    { fileoffset == self.filesz_ - 1 }
}

pub open spec fn no_nl(b: Seq<u8>, lo: int, hi: int) -> bool { forall|i: int| lo <= i < hi ==> b[i] != 10u8 }
/// what the search for the line's end inside the block must establish
pub open spec fn end_in_block(b: Seq<u8>, bi_middle: int, is_last_block: bool, partial: bool, found: bool, end: int, eof: bool) -> bool {
    &&& partial <==> (no_nl(b, bi_middle, b.len() as int) && !is_last_block)
    &&& partial == !found
    &&& found ==> bi_middle <= end < b.len() && no_nl(b, bi_middle, end)
    &&& found && !eof ==> b[end] == 10u8
    &&& eof ==> end == b.len() - 1 && is_last_block
}

/// find_line_in_block: from `let mut bi_at` to the test that marks the line as partial
pub fn lnb_in_block(rd: &LineReader, bptr_middle: BlockP, bi_middle: BlockIndex, bo_middle: BlockOffset, blockoffset_last: BlockOffset, fileoffset: FileOffset)
    -> (r: (bool, bool, BlockIndex, bool, FileOffset))
    requires
        rd.charsz_ == 1, rd.filesz_ >= 1, rd.blocksz_ >= 1,
        bi_middle < bptr_middle@.len(), bptr_middle@.len() <= rd.blocksz_, bo_middle <= blockoffset_last,
        bo_middle * rd.blocksz_ + bptr_middle@.len() <= rd.filesz_,
        // the last block holds the file's tail
        bo_middle == blockoffset_last ==> bo_middle * rd.blocksz_ + bptr_middle@.len() == rd.filesz_,
        bo_middle < blockoffset_last ==> bo_middle * rd.blocksz_ + bptr_middle@.len() < rd.filesz_,
    ensures
        end_in_block(bptr_middle@, bi_middle as int, bo_middle == blockoffset_last, r.0, r.1, r.2 as int, r.3),
        r.1 ==> r.4 as int == bo_middle * rd.blocksz_ + r.2,
        // C12: a line that continues past the block's end is represented, in this block, by ALL its bytes up to the block's last byte
        r.0 ==> r.2 as int == bptr_middle@.len() - 1,
{
    let self_ = rd;
    let charsz_bi: BlockIndex = rd.charsz_ as BlockIndex;
    let filesz: FileSz = rd.filesz();
    let mut partial_line = false;
    let mut found_nl_b: bool = false;
    let mut fo_nl_b: FileOffset = fileoffset;
    let mut nl_b_eof: bool = false;
    let mut bi_middle_end: BlockIndex = bi_middle;
//@cut slice path=src/readers/linereader.rs impl=LineReader fn=find_line_in_block anchor="let mut bi_at: BlockIndex = bi_middle;" take=range end_anchor="if !found_nl_b {" label=LNB-INBLOCK
//@replace "self." "self_." count=*
//@loop 1
            invariant_except_break
                bi_middle <= bi_at < bi_stop, !found_nl_b,
                no_nl(bptr_middle@, bi_middle as int, bi_at as int),
                bi_middle_end == bi_middle,
            invariant
                bi_stop == bptr_middle@.len(), charsz_bi == 1, !nl_b_eof, !partial_line,
                bo_middle * self_.blocksz_ + bptr_middle@.len() <= self_.filesz_,
            ensures
                bi_middle <= bi_at <= bi_stop, bi_stop == bptr_middle@.len(),
                found_nl_b ==> bi_at < bi_stop && bptr_middle@[bi_at as int] == 10u8 && bi_middle_end == bi_at && no_nl(bptr_middle@, bi_middle as int, bi_at as int)
                    && fo_nl_b as int == bo_middle * self_.blocksz_ + bi_at,
                !found_nl_b ==> bi_at == bi_stop && no_nl(bptr_middle@, bi_middle as int, bi_stop as int) && bi_middle_end == bi_middle,
                !nl_b_eof, !partial_line,
            decreases bi_stop - bi_at,
//@end
    (partial_line, found_nl_b, bi_middle_end, nl_b_eof, fo_nl_b)
}

/// find_line: the same scan inside the block that holds the offset; here a line that continues into the next block is not
/// "partial" -- the search goes on in the following blocks -- but the part taken from this block must again reach the block's end
pub fn lnb_find_line_first_block(rd: &LineReader, bptr_middle: BlockP, bi_middle: BlockIndex, bo_middle: BlockOffset, blockoffset_last: BlockOffset, fileoffset: FileOffset)
    -> (r: (bool, BlockIndex, bool, FileOffset, bool))
    requires
        rd.charsz_ == 1, rd.filesz_ >= 1, rd.blocksz_ >= 1,
        bi_middle < bptr_middle@.len(), bptr_middle@.len() <= rd.blocksz_, bo_middle <= blockoffset_last,
        bo_middle * rd.blocksz_ + bptr_middle@.len() <= rd.filesz_,
        bo_middle == blockoffset_last ==> bo_middle * rd.blocksz_ + bptr_middle@.len() == rd.filesz_,
        bo_middle < blockoffset_last ==> bo_middle * rd.blocksz_ + bptr_middle@.len() < rd.filesz_,
    ensures
        // r = (found_nl_b, bi_middle_end, nl_b_eof, fo_nl_b, fo_nl_b_in_middle)
        r.0 <==> !(no_nl(bptr_middle@, bi_middle as int, bptr_middle@.len() as int) && bo_middle != blockoffset_last),
        r.0 ==> bi_middle <= r.1 < bptr_middle@.len() && no_nl(bptr_middle@, bi_middle as int, r.1 as int) && r.3 as int == bo_middle * rd.blocksz_ + r.1 && r.4,
        r.0 && !r.2 ==> bptr_middle@[r.1 as int] == 10u8,
        r.2 ==> r.0 && r.1 == bptr_middle@.len() - 1 && bo_middle == blockoffset_last,
        // C12: the line goes on in the next block: everything up to this block's last byte belongs to it
        !r.0 ==> r.1 as int == bptr_middle@.len() - 1,
{
    let self_ = rd;
    let charsz_bi: BlockIndex = rd.charsz_ as BlockIndex;
    let filesz: FileSz = rd.filesz();
    let mut found_nl_b: bool = false;
    let mut fo_nl_b: FileOffset = fileoffset;
    let mut fo_nl_b_in_middle: bool = false;
    let mut nl_b_eof: bool = false;
    let mut bi_middle_end: BlockIndex = bi_middle;
//@cut slice path=src/readers/linereader.rs impl=LineReader fn=find_line anchor="let mut bi_at: BlockIndex = bi_middle;" take=range end_anchor="if !found_nl_b && bo_middle == blockoffset_last {" label=LNB-FINDLINE-B1
//@replace "self." "self_." count=*
//@loop 1
            invariant_except_break
                bi_middle <= bi_at < bi_stop, !found_nl_b,
                no_nl(bptr_middle@, bi_middle as int, bi_at as int),
                bi_middle_end == bi_middle, !fo_nl_b_in_middle,
            invariant
                bi_stop == bptr_middle@.len(), charsz_bi == 1, !nl_b_eof,
                bo_middle * self_.blocksz_ + bptr_middle@.len() <= self_.filesz_,
            ensures
                bi_middle <= bi_at <= bi_stop, bi_stop == bptr_middle@.len(),
                found_nl_b ==> bi_at < bi_stop && bptr_middle@[bi_at as int] == 10u8 && bi_middle_end == bi_at && no_nl(bptr_middle@, bi_middle as int, bi_at as int)
                    && fo_nl_b as int == bo_middle * self_.blocksz_ + bi_at && fo_nl_b_in_middle,
                !found_nl_b ==> bi_at == bi_stop && no_nl(bptr_middle@, bi_middle as int, bi_stop as int) && bi_middle_end == bi_middle,
                !nl_b_eof,
            decreases bi_stop - bi_at,
//@end
    (found_nl_b, bi_middle_end, nl_b_eof, fo_nl_b, fo_nl_b_in_middle)
}

} // verus!
fn main() {}
