// UNIT EVC — how an event-log message is built from a parsed record (C10: the creation time the window and the ordering use is the
// record's own timestamp; C13: the datetime range recorded for highlighting lies inside the text): Evtx::from_evtxrs and
// Evtx::get_dt_beg_end (src/data/evtx.rs); EVR-SETTINGS: the parser settings built in EvtxReader::new withhold no chunk of records.
// Assumed by contract (stand-ins, R9): DateTime<Utc> -> DateTime<FixedOffset> `.into()` keeps the instant; `String + &str`
// concatenates; `str::find` returns the first occurrence.  The evtx crate's record (EvtxRS) by the three fields used.
#![allow(unused_imports, non_camel_case_types, dead_code, unused_variables, unused_parens, unused_mut, unused_assignments, non_snake_case)]
use vstd::prelude::*;
use core::cmp::Ordering;
use vstd::std_specs::cmp::*;
verus! {

//@include ../common/datetime.rs
pub type RecordId = u64;
pub type DtBegEndPair = (usize, usize);
pub type DtBegEndPairOpt = Option<DtBegEndPair>;
pub open spec fn sb(s: &str) -> Seq<u8> { vstd::utf8::encode_utf8(s@) }
pub open spec fn sbs(s: &String) -> Seq<u8> { vstd::utf8::encode_utf8(s@) }
/// the evtx crate's parsed record, by the fields used
pub struct EvtxRS { pub event_record_id: RecordId, pub timestamp: Timestamp, pub data: String }
//@cut type kind=const path=src/common.rs name=NLs
//@replace "&str" "&'static str"
//@end
//@cut type kind=const path=src/data/evtx.rs name=TIMECREATED_BEG_SUBSTR
//@replace "&str" "&'static str"
//@replace "const TIMECREATED_BEG_SUBSTR" "pub const TIMECREATED_BEG_SUBSTR"
//@end
//@cut type kind=const path=src/data/evtx.rs name=TIMECREATED_END_SUBCHAR
//@replace "const TIMECREATED_END_SUBCHAR" "pub const TIMECREATED_END_SUBCHAR"
//@end
/// stand-in (R9) for `record.timestamp.clone().into()`
#[verifier::external_body]
pub fn verif_ts_into_dtl(ts: &Timestamp) -> (r: DateTimeL) ensures instant(r) == ts_instant(*ts) { unimplemented!() }
/// stand-in (R9) for `a.clone() + b`
#[verifier::external_body]
pub fn verif_string_append(a: &String, b: &str) -> (r: String) ensures sbs(&r) == sbs(a) + sb(b) { unimplemented!() }
/// pat occurs in d at byte i
pub open spec fn occurs(d: Seq<u8>, pat: Seq<u8>, i: int) -> bool { 0 <= i && i + pat.len() <= d.len() && d.subrange(i, i + pat.len()) == pat }
/// stand-in (R9) for `data.find(pat)`: the first occurrence
#[verifier::external_body]
pub fn verif_find_str(data: &str, pat: &str) -> (r: Option<usize>)
    ensures r is Some ==> occurs(sb(data), sb(pat), r.unwrap() as int) && forall|j: int| 0 <= j < r.unwrap() ==> !occurs(sb(data), sb(pat), j),
        r is None ==> forall|j: int| !occurs(sb(data), sb(pat), j),
{ unimplemented!() }
/// stand-in (R9) for `data[from..].find(c)` with an ASCII character: offset, relative to `from`, of the first byte equal to it
#[verifier::external_body]
pub fn verif_find_char_from(data: &str, from: usize, c: char) -> (r: Option<usize>)
    requires from <= sb(data).len()
    ensures r is Some ==> from + r.unwrap() < sb(data).len() && sb(data)[from + r.unwrap()] == c as u8 && forall|j: int| from <= j < from + r.unwrap() ==> sb(data)[j] != c as u8,
{ unimplemented!() }

//@cut type kind=struct path=src/data/evtx.rs name=Evtx derives= pubfields=1
//@end
impl Evtx {
//@cut fn path=src/data/evtx.rs impl=Evtx name=get_dt_beg_end ret=r
//@replace "pub(crate) fn" "pub fn"
//@replace "data.find(TIMECREATED_BEG_SUBSTR)" "verif_find_str(data, TIMECREATED_BEG_SUBSTR)"
//@replace "data[dt_beg..].find(TIMECREATED_END_SUBCHAR)" "verif_find_char_from(data, dt_beg, TIMECREATED_END_SUBCHAR)"
//@spec
    requires sb(data).len() <= usize::MAX
    ensures
        // C13: the range recorded for highlighting lies inside the text: right after the first `<TimeCreated SystemTime="`, up to the
        // next double quote
        r is Some ==> r.unwrap().0 <= r.unwrap().1 && (r.unwrap().1 as int) < sb(data).len()
            && occurs(sb(data), sb(TIMECREATED_BEG_SUBSTR), r.unwrap().0 - sb(TIMECREATED_BEG_SUBSTR).len())
            && sb(data)[r.unwrap().1 as int] == TIMECREATED_END_SUBCHAR as u8
            && forall|j: int| r.unwrap().0 <= j < r.unwrap().1 ==> sb(data)[j] != TIMECREATED_END_SUBCHAR as u8,
//@end
//@cut fn path=src/data/evtx.rs impl=Evtx name=from_evtxrs ret=r
//@replace "record.timestamp.clone().into()" "verif_ts_into_dtl(&record.timestamp)"
//@replace "record.data.clone() + NLs" "verif_string_append(&record.data, NLs)"
//@spec
    requires sbs(&record.data).len() + sb(NLs).len() <= usize::MAX
    ensures
        // C10: the message's datetime is the record's own creation time; its id and text are the record's, the text ending with a newline
        instant(r.dt) == ts_instant(record.timestamp), r.id == record.event_record_id,
        sbs(&r.data) == sbs(&record.data) + sb(NLs),
        // C13: a recorded datetime range lies inside the text
        r.dt_beg_end is Some ==> r.dt_beg_end.unwrap().0 <= r.dt_beg_end.unwrap().1 && r.dt_beg_end.unwrap().1 as int <= sbs(&r.data).len(),
//@mutate "let id: RecordId = record.event_record_id;" "let id: RecordId = 0;"
//@end
}

// EVR-SETTINGS — "each record is printed exactly once" starts with the parser being asked for every record: the evtx crate refuses
// a whole 64 KiB chunk (one error, none of its records) when told to validate checksums and the stored checksum is stale, which is
// common in logs copied from a live system.  The one statement of EvtxReader::new (src/readers/evtxreader.rs) that builds the
// parser settings, with the crate's builder modelled by the one switch that can withhold records.
// ---- assumed (evtx crate): ParserSettings::default() does not validate checksums; validate_checksums(b) sets the switch; the other
// builder calls leave it alone
pub struct ParserSettings { pub ghost validate: bool }
impl ParserSettings {
    #[verifier::external_body]
    pub fn default() -> (r: ParserSettings) ensures !r.validate { unimplemented!() }
    #[verifier::external_body]
    pub fn new() -> (r: ParserSettings) ensures !r.validate { unimplemented!() }
    #[verifier::external_body]
    pub fn num_threads(self, num_threads: usize) -> (r: ParserSettings) ensures r.validate == self.validate { unimplemented!() }
    #[verifier::external_body]
    pub fn validate_checksums(self, validate_checksums: bool) -> (r: ParserSettings) ensures r.validate == validate_checksums { unimplemented!() }
    #[verifier::external_body]
    pub fn separate_json_attributes(self, separate: bool) -> (r: ParserSettings) ensures r.validate == self.validate { unimplemented!() }
    #[verifier::external_body]
    pub fn indent(self, pretty: bool) -> (r: ParserSettings) ensures r.validate == self.validate { unimplemented!() }
}
pub fn evr_settings() -> (r: ParserSettings)
    ensures !r.validate   // C10: no chunk of records is withheld for its checksum
{
//@cut slice path=src/readers/evtxreader.rs impl=EvtxReader fn=new anchor="let settings = ParserSettings::" take=stmt label=EVR-SETTINGS
//@end
    settings
}

/// vacuity guard: must NOT verify
pub proof fn evc__canary(d: Seq<u8>, p: Seq<u8>)
    requires occurs(d, p, 3), p.len() == 2, d.len() == 10
    ensures false
{}

} // verus!
fn main() {}
