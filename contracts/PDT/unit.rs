// UNIT PDT — how a --dt-after / --dt-before value is resolved (C14): process_dt and process_dt_exit (src/bin/s4.rs), whole.
// Texts are opaque values with concatenation; what is proved is the resolution procedure the property describes:
//   * the absolute forms are tried in the order of the documented pattern table and the first that parses gives the instant;
//   * a form without a time of day ("a bare date") has the midnight text and pattern appended before it is parsed;
//   * whether the value carries its own zone is passed to the parser as the table says (a zone-less value is then read in the
//     --tz-offset zone: unit EPO proves that of datetime_parse_from_str, the epoch forms included);
//   * a named zone is first rewritten to a numeric one, and the form is skipped when the name is unknown or ambiguous;
//   * only if no absolute form parses is the value read as a relative offset (unit RELO);
//   * process_dt_exit ends the program when nothing resolves.
// Assumed by contract (stand-ins): datetime_parse_from_str (EPO), string_to_rel_offset_datetime (RELO), the rewriting of a trailing
// zone name (string manipulation), String::from / clone / push_str / as_str as concatenation of texts, the table's rows and the
// two appended constants as opaque values.
#![allow(unused_imports, non_camel_case_types, dead_code, unused_variables, unused_parens, unused_mut, unused_assignments, non_snake_case, unused_labels)]
use vstd::prelude::*;
use core::cmp::Ordering;
use vstd::std_specs::cmp::*;
verus! {

//@include ../common/datetime.rs
#[verifier::external_body]
pub struct FixedOffset { _p: u8 }
#[verifier::external_body]
pub struct StrT { _p: u8 }
impl StrT { pub uninterp spec fn txt(&self) -> Seq<char>; }
#[verifier::external_body]
pub struct String { _p: u8 }
impl String {
    pub uninterp spec fn txt(&self) -> Seq<char>;
    #[verifier::external_body]
    pub fn from(s: &StrT) -> (r: String) ensures r.txt() == s.txt() { unimplemented!() }
    #[verifier::external_body]
    pub fn push_str(&mut self, s: &StrT) ensures final(self).txt() == old(self).txt() + s.txt() { unimplemented!() }
    #[verifier::external_body]
    pub fn as_str(&self) -> (r: &StrT) ensures r.txt() == self.txt() { unimplemented!() }
}
impl Clone for String { #[verifier::external_body] fn clone(&self) -> (r: Self) ensures r.txt() == self.txt() { unimplemented!() } }
pub type DateTimePattern_str = StrT;
pub struct Row { pub pat: &'static StrT, pub has_year: bool, pub has_tz: bool, pub has_tzZ: bool, pub has_time: bool }
/// the documented pattern table, in its order
pub uninterp spec fn cli_rows() -> Seq<(&'static StrT, bool, bool, bool, bool)>;
/// stand-in (R9) for `CLI_FILTER_PATTERNS.iter()`
#[verifier::external_body]
pub fn verif_cli_patterns() -> (r: Vec<&'static (&'static StrT, bool, bool, bool, bool)>)
    ensures r@.len() == cli_rows().len(), forall|i: int| 0 <= i < r@.len() ==> *#[trigger] r@[i] == cli_rows()[i]
{ unimplemented!() }
pub uninterp spec fn append_value() -> Seq<char>;
pub uninterp spec fn append_pattern() -> Seq<char>;
#[verifier::external_body]
pub fn verif_append_value() -> (r: &'static StrT) ensures r.txt() == append_value() { unimplemented!() }
#[verifier::external_body]
pub fn verif_append_pattern() -> (r: &'static StrT) ensures r.txt() == append_pattern() { unimplemented!() }
/// the value and pattern after a trailing zone name was rewritten to a numeric zone; None when the name is not in the table
pub uninterp spec fn tzz_rewritten(value: Seq<char>, pat: Seq<char>) -> Option<(Seq<char>, Seq<char>)>;
/// stand-in for the `if *has_tzZ { .. }` block: true = rewritten, false = the form is skipped
#[verifier::external_body]
pub fn verif_tzz_rewrite(dts_: &mut String, pattern: &mut String, pattern_: &StrT) -> (r: bool)
    ensures
        r == (tzz_rewritten(old(dts_).txt(), pattern_.txt()) is Some),
        r ==> final(dts_).txt() == tzz_rewritten(old(dts_).txt(), pattern_.txt()).unwrap().0 && final(pattern).txt() == tzz_rewritten(old(dts_).txt(), pattern_.txt()).unwrap().1,
{ unimplemented!() }
pub uninterp spec fn parse_spec(value: Seq<char>, pat: Seq<char>, has_tz: bool, tz: FixedOffset) -> DateTimeLOpt;
#[verifier::external_body]
pub fn datetime_parse_from_str(data: &StrT, pattern: &StrT, has_tz: bool, tz_offset: &FixedOffset) -> (r: DateTimeLOpt)
    ensures r == parse_spec(data.txt(), pattern.txt(), has_tz, *tz_offset)
{ unimplemented!() }
pub uninterp spec fn rel_spec(value: Seq<char>, tz: FixedOffset, other: DateTimeLOpt, now: Timestamp) -> DateTimeLOpt;
#[verifier::external_body]
pub fn string_to_rel_offset_datetime(val: &String, tz_offset: &FixedOffset, dt_other_opt: &DateTimeLOpt, now_utc: &Timestamp) -> (r: DateTimeLOpt)
    ensures r == rel_spec(val.txt(), *tz_offset, *dt_other_opt, *now_utc)
{ unimplemented!() }
#[verifier::external_body]
pub fn verif_exit() -> ! { unimplemented!() }

/// what one row of the table makes of the value
pub open spec fn try_row(row: (&'static StrT, bool, bool, bool, bool), value: Seq<char>, tz: FixedOffset) -> DateTimeLOpt {
    let start: Option<(Seq<char>, Seq<char>)> = if row.3 { tzz_rewritten(value, row.0.txt()) } else { Some((value, row.0.txt())) };
    match start {
        None => None,
        Some(vp) => {
            let v2 = if !row.4 { vp.0 + append_value() } else { vp.0 };
            let p2 = if !row.4 { vp.1 + append_pattern() } else { vp.1 };
            parse_spec(v2, p2, row.2, tz)
        }
    }
}
/// the first row from i on that resolves the value
pub open spec fn first_row(rows: Seq<(&'static StrT, bool, bool, bool, bool)>, i: int, value: Seq<char>, tz: FixedOffset) -> DateTimeLOpt decreases rows.len() - i {
    if i < 0 || i >= rows.len() { None } else if try_row(rows[i], value, tz) is Some { try_row(rows[i], value, tz) } else { first_row(rows, i + 1, value, tz) }
}

//@cut fn path=src/bin/s4.rs name=process_dt ret=r
//@subst_slice anchor="if *has_tzZ {" take=block label=TZZ with="if *has_tzZ { if !verif_tzz_rewrite(&mut dts_, &mut pattern, *pattern_) { continue; } }"
//@replace "CLI_FILTER_PATTERNS.iter()" "verif_cli_patterns()"
//@replace "now_utc: &DateTime<Utc>" "now_utc: &Timestamp"
//@replace "if !has_time {" "if !*has_time {"
//@replace "CLI_DT_FILTER_APPEND_TIME_VALUE" "verif_append_value()" count=*
//@replace "CLI_DT_FILTER_APPEND_TIME_PATTERN" "verif_append_pattern()" count=*
//@replace "fn process_dt(" "#[verifier::exec_allows_no_decreases_clause] fn process_dt("
//@desugar_for 1 it
//@spec
    ensures
        *dts_opt is None ==> r is None,
        // C14: the first documented absolute form that parses; else the relative reading
        *dts_opt is Some ==> r == (if first_row(cli_rows(), 0, dts_opt.unwrap().txt(), *tz_offset) is Some { first_row(cli_rows(), 0, dts_opt.unwrap().txt(), *tz_offset) }
                                   else { rel_spec(dts_opt.unwrap().txt(), *tz_offset, *dt_other, *now_utc) }),
//@loop 1
        invariant_except_break
            vstd::std_specs::iter::IteratorSpec::decrease(&it.iter) is Some,
        invariant
            it.snapshot@ == it__snap0, it.wf(), it.seq().len() == cli_rows().len(),
            forall|i: int| 0 <= i < it.seq().len() ==> *#[trigger] it.seq()[i] == cli_rows()[i],
            0 <= it.index@ <= it.seq().len(), *dts_opt is Some, dts.txt() == dts_opt.unwrap().txt(),
            // no earlier row resolved the value
            first_row(cli_rows(), 0, dts.txt(), *tz_offset) == first_row(cli_rows(), it.index@ as int, dts.txt(), *tz_offset),
        ensures
            it.index@ == it.seq().len(), first_row(cli_rows(), 0, dts.txt(), *tz_offset) is None,
        decreases vstd::std_specs::iter::IteratorSpec::decrease(&it.iter).unwrap_or(arbitrary()),
//@mutate "if !*has_time {" "if *has_time {"
//@mutate "pattern.as_str(), *has_tz, tz_offset)" "pattern.as_str(), true, tz_offset)"
//@end

//@cut fn path=src/bin/s4.rs name=process_dt_exit ret=r
//@replace "now_utc: &DateTime<Utc>" "now_utc: &Timestamp"
//@replace "std::process::exit(EXIT_ERR);" "verif_exit();"
//@spec
    ensures
        // C14: either the value resolves as process_dt says, or the program ends (it never goes on with an unresolved bound)
        *dts_opt is None ==> r is None,
        *dts_opt is Some ==> r is Some && r == (if first_row(cli_rows(), 0, dts_opt.unwrap().txt(), *tz_offset) is Some { first_row(cli_rows(), 0, dts_opt.unwrap().txt(), *tz_offset) }
                                   else { rel_spec(dts_opt.unwrap().txt(), *tz_offset, *dt_other, *now_utc) }),
//@end

/// vacuity guard: must NOT verify
pub proof fn pdt__canary(v: Seq<char>, tz: FixedOffset)
    requires cli_rows().len() == 2, try_row(cli_rows()[1], v, tz) is Some
    ensures false
{}

} // verus!
fn main() {}
