// UNIT EVX — event logs: every record inside the window is stored once, keyed (creation time, file index), and
// handed out in key order (C03 for evtx sources; C10 order / once).  The evtx crate's parser is opaque.
#![feature(allocator_api)]
#![allow(unused_imports, non_camel_case_types, dead_code, unused_variables, unused_parens, unused_mut, unused_assignments)]
use vstd::prelude::*;
use vstd::std_specs::cmp::*;
use vstd::std_specs::btree::*;
use core::cmp::Ordering;
use std::collections::BTreeMap;
verus! {

global size_of usize == 8;
pub type Count = u64;

//@include ../common/datetime.rs

//@cut type kind=enum path=src/data/datetime.rs name=Result_Filter_DateTime2 derives=
//@end
pub open spec fn oti(d: TimestampOpt) -> Option<int> { match d { Some(x) => Some(ts_instant(x)), None => None } }
pub open spec fn in_window(t: int, a: Option<int>, b: Option<int>) -> bool {
    (a is None || a.unwrap() <= t) && (b is None || t <= b.unwrap())
}
pub open spec fn well_ordered(a: Option<int>, b: Option<int>) -> bool { a is Some && b is Some ==> a.unwrap() <= b.unwrap() }

// ---- real: the event-log window predicate (same contract as in unit FLT)
//@cut fn path=src/readers/evtxreader.rs name=ts_pass_filters ret=r
//@spec
    requires well_ordered(oti(*ts_filter_after), oti(*ts_filter_before)),
    ensures
        r is InRange <==> in_window(ts_instant(*ts), oti(*ts_filter_after), oti(*ts_filter_before)),
//@end

// ---- assumed: the evtx crate.  `records().enumerate()` yields the file's records in file order with consecutive
// indices from 0 (stand-in iterator RecIter, R9); a record carries its creation timestamp
#[verifier::external_body]
pub struct String { _p: u8 }
#[verifier::external_body]
pub struct EvtxErr { _p: u8 }
impl EvtxErr { #[verifier::external_body] pub fn to_string(&self) -> String { unimplemented!() } }
pub struct SerializedEvtxRecord { pub timestamp: Timestamp, pub data: String }
#[verifier::external_body]
pub struct Evtx { _p: u8 }
impl Evtx {
    pub uninterp spec fn idx(&self) -> int;   // ghost: which record of the file this message was built from
    #[verifier::external_body]
    pub fn from_evtxrs(record: &SerializedEvtxRecord) -> (r: Evtx) ensures r.src() == *record { unimplemented!() }
    pub uninterp spec fn src(&self) -> SerializedEvtxRecord;
    #[verifier::external_body]
    pub fn id(&self) -> u64 { unimplemented!() }   // the record's own EventRecordID: any value
}
pub type RecResult = core::result::Result<SerializedEvtxRecord, EvtxErr>;
#[verifier::external_body]
pub struct EvtxParser { _p: u8 }
impl EvtxParser { pub uninterp spec fn recs(&self) -> Seq<RecResult>; }
/// `records()`: the file's records in file order
pub struct RecIter0 { pub ghost recs: Seq<RecResult>, pub ghost pos: int }
impl RecIter0 {
    #[verifier::external_body]
    pub fn next(&mut self) -> (r: Option<RecResult>)
        requires 0 <= old(self).pos <= old(self).recs.len()
        ensures
            final(self).recs == old(self).recs,
            old(self).pos < old(self).recs.len() ==> r is Some && r.unwrap() == old(self).recs[old(self).pos] && final(self).pos == old(self).pos + 1,
            old(self).pos >= old(self).recs.len() ==> r is None && final(self).pos == old(self).pos,
    { unimplemented!() }
    /// assumed: Iterator::enumerate pairs each item with its position, from 0
    #[verifier::external_body]
    pub fn enumerate(self) -> (r: RecIter) ensures r.recs == self.recs, r.pos == self.pos { unimplemented!() }
}
impl Iterator for RecIter0 {
    type Item = RecResult;
    #[verifier::external_body]
    fn next(&mut self) -> Option<RecResult> { unimplemented!() }
}
/// `records().enumerate()`
pub struct RecIter { pub ghost recs: Seq<RecResult>, pub ghost pos: int }
impl RecIter {
    #[verifier::external_body]
    pub fn next(&mut self) -> (r: Option<(usize, RecResult)>)
        requires 0 <= old(self).pos <= old(self).recs.len()
        ensures
            final(self).recs == old(self).recs,
            old(self).pos < old(self).recs.len() ==> r is Some && r.unwrap().0 as int == old(self).pos && r.unwrap().1 == old(self).recs[old(self).pos] && final(self).pos == old(self).pos + 1,
            old(self).pos >= old(self).recs.len() ==> r is None && final(self).pos == old(self).pos,
    { unimplemented!() }
}
impl Iterator for RecIter {
    type Item = (usize, RecResult);
    #[verifier::external_body]
    fn next(&mut self) -> Option<(usize, RecResult)> { unimplemented!() }
}
#[verifier::external_body]
pub fn verif_records(p: &mut EvtxParser) -> (r: RecIter0)
    ensures r.recs == old(p).recs(), r.pos == 0, final(p).recs() == old(p).recs()
{ unimplemented!() }
// ---- assumed: chrono's conversions between zones and naive values (an instant is an instant in every zone; a naive value is a
// wall-clock reading: the instant plus the zone's offset)
pub struct Utc;
#[verifier::external_body]
pub struct NaiveDateTime { _p: u8 }
pub uninterp spec fn naive_val(n: NaiveDateTime) -> int;
pub uninterp spec fn offset_of(dt: DateTimeL) -> int;
impl DateTimeL {
    #[verifier::external_body]
    pub fn with_timezone(&self, tz: &Utc) -> (r: Timestamp) ensures ts_instant(r) == instant(*self) { unimplemented!() }
    #[verifier::external_body]
    pub fn to_utc(&self) -> (r: Timestamp) ensures ts_instant(r) == instant(*self) { unimplemented!() }
    #[verifier::external_body]
    pub fn naive_utc(&self) -> (r: NaiveDateTime) ensures naive_val(r) == instant(*self) { unimplemented!() }
    #[verifier::external_body]
    pub fn naive_local(&self) -> (r: NaiveDateTime) ensures naive_val(r) == instant(*self) + offset_of(*self) { unimplemented!() }
}
impl NaiveDateTime {
    #[verifier::external_body]
    pub fn and_utc(&self) -> (r: Timestamp) ensures ts_instant(r) == naive_val(*self) { unimplemented!() }
}
// ---- real: the window bounds are converted to the records' time scale without changing the instant
//@cut fn path=src/readers/evtxreader.rs name=datetimel_to_timestamp ret=r
//@spec
    ensures ts_instant(r) == instant(*datetime)
//@end
//@cut fn path=src/readers/evtxreader.rs name=datetimelopt_to_timestampopt ret=r
//@spec
    ensures oti(r) == (match *datetimeopt { Some(x) => Some(instant(x)), None => None })
//@end

pub type EventsKey = (Timestamp, usize);
pub type Events = BTreeMap<EventsKey, Evtx>;
// assumed: tuple / chrono orders are lawful total orders (vstd needs this to give BTreeMap a view)
#[verifier::external_body]
pub proof fn axiom_key_obeys_cmp() ensures vstd::laws_cmp::obeys_cmp::<EventsKey>() {}
pub open spec fn key_lt(a: EventsKey, b: EventsKey) -> bool { ts_instant(a.0) < ts_instant(b.0) || (ts_instant(a.0) == ts_instant(b.0) && a.1 < b.1) }

// ---- prelude: EvtxReader reduced to the fields `analyze` and `next` touch
pub struct EvtxReader {
    pub evtxparser: EvtxParser,
    pub events: Events,
    pub events_processed: Count,
    pub events_accepted: Count,
    pub ts_first_processed: TimestampOpt,
    pub ts_last_processed: TimestampOpt,
    pub ts_first_accepted: TimestampOpt,
    pub ts_last_accepted: TimestampOpt,
    pub out_of_order: Count,
    pub analyzed: bool,
    pub error: Option<String>,
}
/// the collection holds exactly the readable records among the first `j` whose creation time is inside the window,
/// each under key (creation time, file index)
pub open spec fn holds_selected(m: Map<EventsKey, Evtx>, recs: Seq<RecResult>, a: Option<int>, b: Option<int>, j: int) -> bool {
    &&& forall|i: int| 0 <= i < j && (#[trigger] recs[i]) is Ok && in_window(ts_instant(recs[i]->Ok_0.timestamp), a, b)
            ==> m.contains_key((recs[i]->Ok_0.timestamp, i as usize)) && m[(recs[i]->Ok_0.timestamp, i as usize)].src() == recs[i]->Ok_0
    &&& forall|k: EventsKey| #[trigger] m.contains_key(k) ==> (k.1 as int) < j && recs[k.1 as int] is Ok && recs[k.1 as int]->Ok_0.timestamp == k.0
            && in_window(ts_instant(k.0), a, b) && m[k].src() == recs[k.1 as int]->Ok_0
}

impl EvtxReader {
//@cut fn path=src/readers/evtxreader.rs impl=EvtxReader name=analyze
//@replace "self.evtxparser.records()" "verif_records(&mut self.evtxparser)"
//@replace "self.events_processed += 1;" "verif_count_inc(&mut self.events_processed);"
//@replace "self.events_accepted += 1;" "verif_count_inc(&mut self.events_accepted);"
//@replace "self.out_of_order += 1;" "verif_count_inc(&mut self.out_of_order);"
//@desugar_for 1 it plain
//@spec
    requires
        old(self).events@.dom() =~= Set::<EventsKey>::empty(),
        old(self).evtxparser.recs().len() <= usize::MAX,
        well_ordered((match *dt_filter_after { Some(x) => Some(instant(x)), None => None }), (match *dt_filter_before { Some(x) => Some(instant(x)), None => None })),
    ensures
        final(self).analyzed,
        // C03 (event logs) / C10: every readable record with A <= creation time <= B is kept, once, keyed
        // (creation time, file index); nothing else is kept -- whatever order the file stores its records in
        holds_selected(final(self).events@, old(self).evtxparser.recs(),
            (match *dt_filter_after { Some(x) => Some(instant(x)), None => None }), (match *dt_filter_before { Some(x) => Some(instant(x)), None => None }),
            old(self).evtxparser.recs().len() as int),
//@at_entry
        proof { axiom_key_obeys_cmp(); broadcast use group_btree_axioms; }
        let ghost recs = self.evtxparser.recs();
//@before "let mut it ="
        let ghost a = oti(ts_filter_after);
        let ghost b = oti(ts_filter_before);
//@loop 1
            invariant
                it.recs == recs, 0 <= it.pos <= recs.len(), recs.len() <= usize::MAX,
                vstd::laws_cmp::obeys_cmp::<EventsKey>(),
                a == oti(ts_filter_after), b == oti(ts_filter_before), well_ordered(a, b),
                holds_selected(self.events@, recs, a, b, it.pos),
            ensures
                it.pos == recs.len(),
            decreases recs.len() - it.pos,
//@after "let mut it ="
                let ghost j = it__old.pos;
                let ghost ev0 = self.events@;
//@after "self.events.insert("
                    proof {
                        assert(self.events@ == ev0.insert((timestamp, j as usize), evtx));
                    }
//@mutate "Result_Filter_DateTime2::AfterRange => {" "Result_Filter_DateTime2::AfterRange => { if self.out_of_order == 0 { break; }"
//@end

//@cut fn path=src/readers/evtxreader.rs impl=EvtxReader name=next ret=r
//@replace "self.events.pop_first().map(|(_key, evtx)| evtx)" "verif_pop_first_value(&mut self.events)"
//@spec
    requires old(self).analyzed
    ensures
        // C10: records are handed out in order of creation time, ties in file order; each leaves the collection
        r is None <==> old(self).events@.dom() =~= Set::<EventsKey>::empty(),
        r is Some ==> exists|k: EventsKey| #[trigger] old(self).events@.contains_key(k) && r.unwrap() == old(self).events@[k]
            && final(self).events@ == old(self).events@.remove(k)
            && (forall|k2: EventsKey| #[trigger] old(self).events@.contains_key(k2) ==> !key_lt(k2, k)),
//@end
}
/// stand-in (R9) for `counter += 1` on a u64 statistics counter: assumed not to overflow
#[verifier::external_body]
pub fn verif_count_inc(c: &mut Count) { unimplemented!() }
/// stand-in (R9) for `map.pop_first().map(|(_key, v)| v)`.  assumed: BTreeMap::pop_first removes and returns the entry
/// with the least key
#[verifier::external_body]
pub fn verif_pop_first_value(m: &mut Events) -> (r: Option<Evtx>)
    ensures
        r is None <==> old(m)@.dom() =~= Set::<EventsKey>::empty(),
        r is None ==> final(m)@ == old(m)@,
        r is Some ==> exists|k: EventsKey| #[trigger] old(m)@.contains_key(k) && r.unwrap() == old(m)@[k] && final(m)@ == old(m)@.remove(k)
            && (forall|k2: EventsKey| #[trigger] old(m)@.contains_key(k2) ==> !key_lt(k2, k)),
{ unimplemented!() }

} // verus!
fn main() {}
