// UNIT TAR — which member of a .tar is read (C10: "a compressed or archived .evtx prints the same as the plain file"; the same
// code serves .journal members): the loop of decompress_to_ntf (src/readers/filedecompressor.rs) that looks for the member named
// after the `|` in the path picks the FIRST member whose name EQUALS that name -- not one that merely resembles it -- and none if
// there is no such member.  The loop is cut from the function; what is extracted afterwards, and the tar crate, stay assumed (C05).
// TAR-META: the same lookup in BlockReader::new (index, size, stored modification time of a text / accounting-record member).
// Assumed by contract (stand-ins, R9): the tar crate's `entries_with_seek().enumerate()` as a finite list of results,
// Entry::path / Header::size / cksum / mtime, `Cow<Path>::to_string_lossy().to_string()` (the member's name as text),
// `&String != &String`, String::ends_with / as_str by their std meaning, SystemTime arithmetic opaque.
#![allow(unused_imports, non_camel_case_types, dead_code, unused_variables, unused_parens, unused_mut, unused_assignments, non_snake_case, unused_labels)]
use vstd::prelude::*;
// stand-in for the crate's macro err_from_err_path_result_dtn!(err, path, message): an error result
macro_rules! err_from_err_path_result_dtn { ($e:expr, $p:expr, $m:expr) => { verif_err($e) } }
verus! {

pub type FileSz = u64;
pub type TarChecksum = u32;
pub type TarMTime = u64;
#[verifier::external_body]
pub struct IoErr { _p: u8 }
/// names as sequences of characters
#[verifier::external_body]
pub struct FPath { _p: u8 }
#[verifier::external_body]
pub struct StrN { _p: u8 }
pub open spec fn is_suffix(s: Seq<char>, t: Seq<char>) -> bool { s.len() <= t.len() && t.subrange(t.len() - s.len(), t.len() as int) == s }
impl FPath {
    pub uninterp spec fn text(&self) -> Seq<char>;
    #[verifier::external_body]
    pub fn as_str(&self) -> (r: &StrN) ensures r.text() == self.text() { unimplemented!() }
    #[verifier::external_body]
    pub fn ends_with(&self, s: &StrN) -> (r: bool) ensures r == is_suffix(s.text(), self.text()) { unimplemented!() }
    #[verifier::external_body]
    pub fn starts_with(&self, s: &StrN) -> (r: bool) ensures r == (s.text().len() <= self.text().len() && self.text().subrange(0, s.text().len() as int) == s.text()) { unimplemented!() }
    #[verifier::external_body]
    pub fn contains(&self, s: &StrN) -> (r: bool) { unimplemented!() }
}
impl StrN { pub uninterp spec fn text(&self) -> Seq<char>; }
/// stand-in for `a != &b` on `&String`
#[verifier::external_body]
pub fn verif_string_ne(a: &FPath, b: &FPath) -> (r: bool) ensures r == (a.text() != b.text()) { unimplemented!() }

#[verifier::external_body]
pub struct Header { _p: u8 }
impl Header {
    pub uninterp spec fn size_ok(&self) -> Option<u64>;
    pub uninterp spec fn mtime_ok(&self) -> Option<u64>;
    #[verifier::external_body]
    pub fn size(&self) -> (r: core::result::Result<u64, IoErr>) ensures r is Ok <==> self.size_ok() is Some, r is Ok ==> r->Ok_0 == self.size_ok().unwrap() { unimplemented!() }
    #[verifier::external_body]
    pub fn cksum(&self) -> (r: core::result::Result<u32, IoErr>) { unimplemented!() }
    #[verifier::external_body]
    pub fn mtime(&self) -> (r: core::result::Result<u64, IoErr>) ensures r is Ok <==> self.mtime_ok() is Some, r is Ok ==> r->Ok_0 == self.mtime_ok().unwrap() { unimplemented!() }
}
#[verifier::external_body]
pub struct NameCow { _p: u8 }
impl NameCow {
    pub uninterp spec fn text(&self) -> Seq<char>;
    /// stand-in for `.to_string_lossy().to_string()`
    #[verifier::external_body]
    pub fn verif_to_fpath(&self) -> (r: FPath) ensures r.text() == self.text() { unimplemented!() }
}
#[verifier::external_body]
pub struct Entry { _p: u8 }
impl Entry {
    /// the member's name, when it can be read
    pub uninterp spec fn name(&self) -> Option<Seq<char>>;
    #[verifier::external_body]
    pub fn path(&self) -> (r: core::result::Result<NameCow, IoErr>) ensures r is Ok <==> self.name() is Some, r is Ok ==> r->Ok_0.text() == self.name().unwrap() { unimplemented!() }
    pub uninterp spec fn header_spec(&self) -> Header;
    #[verifier::external_body]
    pub fn header(&self) -> (r: &Header) ensures *r == self.header_spec() { unimplemented!() }
}
pub type EntryRes = core::result::Result<Entry, IoErr>;
#[verifier::external_body]
pub struct SystemTime { _p: u8 }
#[verifier::external_body]
pub fn verif_mtime_to_systemtime(mtime: u64) -> SystemTime { unimplemented!() }   // stand-in: SystemTime::UNIX_EPOCH + Duration::from_secs(mtime)
pub enum DtnResult { Err(IoErr), OkNone }
#[verifier::external_body]
pub fn verif_err(err: &IoErr) -> (r: DtnResult) ensures r is Err { unimplemented!() }   // stand-in: err_from_err_path_result_dtn!(..)

/// member i is the one wanted: readable, its name readable and equal to the wanted name
pub open spec fn wanted(es: Seq<(usize, EntryRes)>, i: int, want: Seq<char>) -> bool { es[i].1 is Ok && es[i].1->Ok_0.name() == Some(want) }

#[verifier::exec_allows_no_decreases_clause]
pub fn tar_find_member(entries: Vec<(usize, EntryRes)>, subpath: &FPath, found: &mut Option<Entry>, mtime_out: &mut Option<SystemTime>) -> (r: DtnResult)
    requires *old(found) is None
    ensures
        // C10 (archived): the member extracted is the first one named exactly as asked; none if no member is
        r is OkNone ==> (
            (*final(found) is Some ==> exists|i: int| 0 <= i < entries@.len() && #[trigger] wanted(entries@, i, subpath.text()) && entries@[i].1->Ok_0 == (*final(found)).unwrap()
                && forall|j: int| 0 <= j < i ==> !wanted(entries@, j, subpath.text()))
            && (*final(found) is None ==> forall|j: int| 0 <= j < entries@.len() ==> !wanted(entries@, j, subpath.text()))),
{
    let ghost es = entries@; let ghost want = subpath.text();
    let mut entry_opt: Option<Entry> = None;
    let mut filesz_header: FileSz = 0;
    let mut mtime_opt: Option<SystemTime> = None;
    let entry_iter = entries;
//@cut slice path=src/readers/filedecompressor.rs fn=decompress_to_ntf anchor="for (_index, entry_res) in entry_iter.enumerate()" take=block label=TAR-FIND
//@replace "entry_iter.enumerate()" "entry_iter"
//@replace "let entry: tar::Entry<File> = match entry_res {" "let entry: Entry = match entry_res {"
//@replace "let subpath_cow: Cow<Path> = match entry.path() {" "let subpath_cow: NameCow = match entry.path() {"
//@replace "subpath_cow .to_string_lossy() .to_string()" "subpath_cow.verif_to_fpath()" ws=1
//@replace "subpath != &subfpath" "verif_string_ne(subpath, &subfpath)" count=0+
//@replace "Some(SystemTime::UNIX_EPOCH + std::time::Duration::from_secs(mtime))" "Some(verif_mtime_to_systemtime(mtime))"
//@desugar_for 1 it
//@before "entry_opt = Some(entry);"
                proof {
                    let k = it__old.index@ as int;
                    assert(es[k].1 is Ok && es[k].1->Ok_0 == entry);
                    assert(wanted(es, k, want));
                }
//@loop 1
        invariant_except_break
            vstd::std_specs::iter::IteratorSpec::decrease(&it.iter) is Some,
            entry_opt is None,
        invariant
            it.snapshot@ == it__snap0, it.wf(), it.seq() == es, 0 <= it.index@ <= it.seq().len(), want == subpath.text(),
            forall|j: int| 0 <= j < it.index@ - (if entry_opt is Some { 1int } else { 0int }) ==> !wanted(es, j, want),
        ensures
            entry_opt is Some ==> exists|i: int| 0 <= i < es.len() && #[trigger] wanted(es, i, want) && es[i].1->Ok_0 == entry_opt.unwrap() && forall|j: int| 0 <= j < i ==> !wanted(es, j, want),
            entry_opt is None ==> forall|j: int| 0 <= j < es.len() ==> !wanted(es, j, want),
        decreases vstd::std_specs::iter::IteratorSpec::decrease(&it.iter).unwrap_or(arbitrary()),
//@end
    *found = entry_opt;
    *mtime_out = mtime_opt;
    DtnResult::OkNone
}

// =====================================================================================================
// TAR-META — the same lookup in BlockReader::new (src/readers/blockreader.rs), for text and accounting-record members: the member's
// index (which read_block_FileTar later reads), its size and its stored modification time (C11: "for .gz and .tar the modification
// time stored inside") are those of the first member named exactly as asked
pub struct BlockReader { pub x: u8 }
pub enum NewResult { Err(IoErr), Cont }
#[verifier::external_body]
pub fn err_from_err_path_result<T>(err: &IoErr, path: &FPath, mesg: Option<&str>) -> (r: NewResult) ensures r is Err { unimplemented!() }
#[verifier::exec_allows_no_decreases_clause]
pub fn tar_member_meta(entries: Vec<(usize, EntryRes)>, subpath: &FPath, path: FPath, entry_index_out: &mut usize, filesz_out: &mut FileSz, mtime_out: &mut TarMTime) -> (r: NewResult)
    requires forall|i: int| 0 <= i < entries@.len() ==> (#[trigger] entries@[i]).0 == i
    ensures
        r is Cont ==> forall|i: int| 0 <= i < entries@.len() && #[trigger] wanted(entries@, i, subpath.text()) && (forall|j: int| 0 <= j < i ==> !wanted(entries@, j, subpath.text()))
            ==> *final(entry_index_out) == i
                && *final(filesz_out) == entries@[i].1->Ok_0.header_spec().size_ok().unwrap()
                && *final(mtime_out) == (if entries@[i].1->Ok_0.header_spec().mtime_ok() is Some { entries@[i].1->Ok_0.header_spec().mtime_ok().unwrap() } else { 0 }),
{
    let ghost es = entries@; let ghost want = subpath.text();
    let mut filesz_actual: FileSz = 0;
    let mut checksum: TarChecksum = 0;
    let mut mtime: TarMTime = 0;
    let entry_iter = entries;
//@cut slice path=src/readers/blockreader.rs impl=BlockReader fn=new anchor="let mut entry_index: usize = 0;" take=range end_anchor="for (index, entry_res) in entry_iter.enumerate()" label=TAR-META
//@replace "entry_iter.enumerate()" "entry_iter"
//@replace "let entry: tar::Entry<File> = match entry_res {" "let entry: Entry = match entry_res {"
//@replace "let subpath_cow: Cow<Path> = match entry.path() {" "let subpath_cow: NameCow = match entry.path() {"
//@replace "subpath_cow .to_string_lossy() .to_string()" "subpath_cow.verif_to_fpath()" ws=1
//@replace "subpath != &subfpath" "verif_string_ne(subpath, &subfpath)" count=0+
//@desugar_for 1 it
//@before "filesz_actual = match entry.header().size() {"
                    proof {
                        let k = it__old.index@ as int;
                        assert(es[k].1 is Ok && es[k].1->Ok_0 == entry && es[k].0 == k);
                        assert(wanted(es, k, want));
                    }
//@loop 1
        invariant_except_break
            vstd::std_specs::iter::IteratorSpec::decrease(&it.iter) is Some,
            forall|j: int| 0 <= j < it.index@ ==> !wanted(es, j, want),
        invariant
            it.snapshot@ == it__snap0, it.wf(), it.seq() == es, 0 <= it.index@ <= it.seq().len(), want == subpath.text(),
            forall|i: int| 0 <= i < es.len() ==> (#[trigger] es[i]).0 == i,
        ensures
            forall|i: int| 0 <= i < es.len() && #[trigger] wanted(es, i, want) && (forall|j: int| 0 <= j < i ==> !wanted(es, j, want))
                ==> entry_index == i && filesz_actual == es[i].1->Ok_0.header_spec().size_ok().unwrap()
                    && mtime == (if es[i].1->Ok_0.header_spec().mtime_ok() is Some { es[i].1->Ok_0.header_spec().mtime_ok().unwrap() } else { 0 }),
        decreases vstd::std_specs::iter::IteratorSpec::decrease(&it.iter).unwrap_or(arbitrary()),
//@end
    *entry_index_out = entry_index;
    *filesz_out = filesz_actual;
    *mtime_out = mtime;
    NewResult::Cont
}

// =====================================================================================================
// NTF-COPY — a compressed .evtx / .journal is decompressed into a temporary file before it is parsed (decompress_to_ntf): the copy
// loops of the bzip2 and LZ4 branches write every byte the decoder yields, in order, until the decoder reports the end of the data
// (a read of 0 bytes) -- a read that returns fewer bytes than the buffer holds is not the end (C10: "a compressed .evtx prints the
// same as the plain file")
pub struct Stream { pub ghost data: Seq<u8>, pub ghost pos: nat }
pub struct Sink { pub ghost written: Seq<u8> }
pub const BUF_SZ: usize = 65536;   // size of the copy buffer (decompress_to_ntf declares the same constant locally; the contract does not depend on it)
/// stand-in (R9) for `<decoder>.read(&mut buf)`: std::io::Read -- Ok(n): n <= buf.len(), the next n bytes; Ok(0) for a non-empty
/// buffer only at the end of the data
#[verifier::external_body]
pub fn verif_stream_read<const N: usize>(st: &mut Stream, buf: &mut [u8; N]) -> (r: core::result::Result<usize, IoErr>)
    requires old(st).pos <= old(st).data.len()
    ensures
        final(st).data == old(st).data,
        r is Ok ==> r->Ok_0 <= N && final(st).pos == old(st).pos + r->Ok_0 && final(st).pos <= old(st).data.len()
            && (forall|i: int| 0 <= i < r->Ok_0 ==> #[trigger] final(buf)@[i] == old(st).data[old(st).pos + i])
            && (r->Ok_0 == 0 && N > 0 ==> old(st).pos == old(st).data.len()),
        r is Err ==> final(st).pos == old(st).pos,
{ unimplemented!() }
/// stand-in (R9) for `bufwriter.write_all(&buf[..n])`
#[verifier::external_body]
pub fn verif_write_all<const N: usize>(sink: &mut Sink, buf: &[u8; N], n: usize) -> (r: core::result::Result<(), IoErr>)
    requires n <= N
    ensures r is Ok ==> final(sink).written == old(sink).written + buf@.subrange(0, n as int), r is Err ==> final(sink).written == old(sink).written
{ unimplemented!() }
pub fn verif_count_add(c: &mut FileSz, n: FileSz) { if *c <= u64::MAX - n { *c = *c + n; } }

#[verifier::exec_allows_no_decreases_clause]
pub fn ntf_copy_bz2(st: &mut Stream, sink: &mut Sink, buf0: [u8; BUF_SZ]) -> (r: DtnResult)
    requires old(st).pos <= old(st).data.len()
    ensures r is OkNone ==> final(sink).written == old(sink).written + old(st).data.subrange(old(st).pos as int, old(st).data.len() as int)
{
    let mut buf = buf0;
    let ghost d = st.data; let ghost p0 = st.pos; let ghost w0 = sink.written;
//@cut slice path=src/readers/filedecompressor.rs fn=decompress_to_ntf anchor="let mut _filesz_uncompressed: FileSz = 0;" k=1 take=range end_anchor="loop {" label=NTF-COPY-BZ2
//@replace "bz2_decoder.read(&mut buf)" "verif_stream_read(st, &mut buf)"
//@replace "bufwriter.write_all(&buf[..bytes_read])" "verif_write_all(sink, &buf, bytes_read)"
//@replace "_filesz_uncompressed += bytes_read as FileSz;" "verif_count_add(&mut _filesz_uncompressed, bytes_read as FileSz);"
//@replace "_loop_count += 1;" "if _loop_count < usize::MAX { _loop_count += 1; }"
//@loop 1
                invariant_except_break
                    true,
                invariant
                    st.data == d, d == old(st).data, p0 == old(st).pos, w0 == old(sink).written, p0 <= st.pos <= d.len(),
                    sink.written == w0 + d.subrange(p0 as int, st.pos as int),
                ensures
                    st.pos == d.len(),
//@end
    proof { assert(d.subrange(p0 as int, st.pos as int) =~= d.subrange(p0 as int, d.len() as int)); }
    DtnResult::OkNone
}

#[verifier::exec_allows_no_decreases_clause]
pub fn ntf_copy_lz4(st: &mut Stream, sink: &mut Sink, buf0: [u8; BUF_SZ]) -> (r: DtnResult)
    requires old(st).pos <= old(st).data.len()
    ensures r is OkNone ==> final(sink).written == old(sink).written + old(st).data.subrange(old(st).pos as int, old(st).data.len() as int)
{
    let mut buf = buf0;
    let ghost d = st.data; let ghost p0 = st.pos; let ghost w0 = sink.written;
//@cut slice path=src/readers/filedecompressor.rs fn=decompress_to_ntf anchor="let mut _filesz_uncompressed: FileSz = 0;" k=2 take=range end_anchor="loop {" label=NTF-COPY-LZ4
//@replace "lz4_decoder.read(&mut buf)" "verif_stream_read(st, &mut buf)"
//@replace "bufwriter.write_all(&buf[..bytes_read])" "verif_write_all(sink, &buf, bytes_read)"
//@replace "_filesz_uncompressed += bytes_read as FileSz;" "verif_count_add(&mut _filesz_uncompressed, bytes_read as FileSz);"
//@replace "_loop_count += 1;" "if _loop_count < usize::MAX { _loop_count += 1; }"
//@loop 1
                invariant_except_break
                    true,
                invariant
                    st.data == d, d == old(st).data, p0 == old(st).pos, w0 == old(sink).written, p0 <= st.pos <= d.len(),
                    sink.written == w0 + d.subrange(p0 as int, st.pos as int),
                ensures
                    st.pos == d.len(),
//@end
    proof { assert(d.subrange(p0 as int, st.pos as int) =~= d.subrange(p0 as int, d.len() as int)); }
    DtnResult::OkNone
}

/// vacuity guard: must NOT verify
pub proof fn tar__canary(es: Seq<(usize, EntryRes)>, w: Seq<char>)
    requires es.len() == 2, wanted(es, 1, w)
    ensures false
{}

} // verus!
fn main() {}
