// UNIT RBK — BlockReader's block store (C12: whatever the block size, the block handed out for offset `bo` holds exactly the
// bytes [bo*blocksz, min((bo+1)*blocksz, filesz)) of the file): read_block_File (plain files), store_block_in_storage,
// store_block_in_LRU_cache, and read_block with its two caches.  The file handle and the two cache crates are assumed by their
// key/value views; the readers of compressed / archived files are assumed to meet the same contract (C05, not applicable; the
// fill loops of the gzip and bzip2 readers are under contract in unit RGZ).
#![feature(allocator_api)]
#![allow(unused_imports, non_camel_case_types, dead_code, unused_variables, unused_parens, unused_mut, unused_assignments, non_snake_case, unused_labels)]
use vstd::prelude::*;
use vstd::std_specs::btree::*;
use std::sync::Arc;
use std::collections::BTreeMap;
verus! {

global size_of usize == 8;
pub type Count = u64;
pub type FileOffset = u64;
pub type FileSz = u64;
pub type BlockOffset = u64;
pub type BlockSz = u64;
pub type Block = Vec<u8>;
pub type BlockP = Arc<Block>;
pub type Blocks = BTreeMap<BlockOffset, BlockP>;
#[verifier::external_body]
pub struct Error { _p: u8 }
#[verifier::external_body]
pub struct FPath { _p: u8 }
//@cut type kind=enum path=src/common.rs name=ResultS3 derives=
//@end
pub type ResultS3ReadBlock = ResultS3<BlockP, Error>;
//@cut type kind=enum path=src/common.rs name=FileTypeArchive derives=Clone,Copy
//@end
//@cut type kind=enum path=src/common.rs name=FileTypeFixedStruct derives=Clone,Copy
//@end
//@cut type kind=enum path=src/common.rs name=FileTypeTextEncoding derives=Clone,Copy
//@end
//@cut type kind=enum path=src/common.rs name=FileType derives=Clone,Copy
//@end

/// the bytes of block `bo` of a file read with block size `bs`
pub open spec fn fblock(file: Seq<u8>, bs: int, bo: int) -> Seq<u8> {
    file.subrange(bo * bs, if (bo + 1) * bs <= file.len() { (bo + 1) * bs } else { file.len() as int })
}
pub open spec fn sp_last(filesz: int, bsz: int) -> int { if filesz == 0 { 0 } else { (if filesz % bsz > 0 { filesz / bsz + 1 } else { filesz / bsz }) - 1 } }

pub proof fn lemma_block_bounds(filesz: int, bs: int, bo: int)
    requires bs >= 1, filesz >= 0, 0 <= bo <= sp_last(filesz, bs)
    ensures bo * bs <= filesz, filesz > 0 ==> bo * bs < filesz, (bo + 1) * bs == bo * bs + bs, bs * bo == bo * bs, bo * bs >= 0
{
    assert((bo + 1) * bs == bo * bs + bs) by (nonlinear_arith);
    assert(bs * bo == bo * bs) by (nonlinear_arith);
    assert(bo * bs >= 0) by (nonlinear_arith) requires bo >= 0, bs >= 1;
    if filesz > 0 {
        let q = filesz / bs;
        let cnt = if filesz % bs > 0 { q + 1 } else { q };
        assert(filesz == q * bs + filesz % bs) by { vstd::arithmetic::div_mod::lemma_fundamental_div_mod(filesz, bs); assert(bs * q == q * bs) by (nonlinear_arith); }
        assert(0 <= filesz % bs < bs) by { vstd::arithmetic::div_mod::lemma_mod_bound(filesz, bs); }
        // bo <= cnt - 1
        if filesz % bs > 0 { assert(bo * bs <= q * bs) by (nonlinear_arith) requires bo <= q, bs >= 1, bo >= 0; }
        else { assert(bo * bs <= (q - 1) * bs) by (nonlinear_arith) requires bo <= q - 1, bs >= 1, bo >= 0; assert((q - 1) * bs == q * bs - bs) by (nonlinear_arith); }
    }
}

// ---- assumed: std::fs::File (seek to an absolute position, read_exact fills the buffer from there or fails)
pub enum SeekFrom { Start(u64) }
#[verifier::external_body]
pub struct File { _p: u8 }
impl File {
    pub uninterp spec fn bytes(&self) -> Seq<u8>;
    pub uninterp spec fn pos(&self) -> int;
    #[verifier::external_body]
    pub fn seek(&mut self, s: SeekFrom) -> (r: core::result::Result<u64, Error>)
        ensures final(self).bytes() == old(self).bytes(), r is Ok ==> final(self).pos() == s->Start_0 as int
    { unimplemented!() }
    #[verifier::external_body]
    pub fn read_exact(&mut self, buf: &mut Vec<u8>) -> (r: core::result::Result<(), Error>)
        ensures
            final(self).bytes() == old(self).bytes(), final(buf)@.len() == old(buf)@.len(),
            r is Ok ==> old(self).pos() + old(buf)@.len() <= old(self).bytes().len()
                && final(buf)@ == old(self).bytes().subrange(old(self).pos(), old(self).pos() + old(buf)@.len()),
    { unimplemented!() }
}
// ---- assumed: the lru crate's cache and BTreeSet, by their views
#[verifier::external_body]
pub struct BlocksLRUCache { _p: u8 }
impl BlocksLRUCache {
    pub uninterp spec fn view(&self) -> Map<BlockOffset, BlockP>;
    #[verifier::external_body]
    pub fn get(&mut self, k: &BlockOffset) -> (r: Option<&BlockP>)
        ensures final(self)@ == old(self)@, r is Some <==> old(self)@.contains_key(*k), r is Some ==> *r.unwrap() == old(self)@[*k]
    { unimplemented!() }
    /// assumed: put stores the pair and may evict other entries, never alters one
    #[verifier::external_body]
    pub fn put(&mut self, k: BlockOffset, v: BlockP) -> (r: Option<BlockP>)
        ensures final(self)@.contains_key(k) && final(self)@[k] == v,
            forall|j: BlockOffset| #[trigger] final(self)@.contains_key(j) && j != k ==> old(self)@.contains_key(j) && final(self)@[j] == old(self)@[j],
    { unimplemented!() }
}
#[verifier::external_body]
pub struct BlocksTracked { _p: u8 }
impl BlocksTracked {
    pub uninterp spec fn view(&self) -> Set<BlockOffset>;
    #[verifier::external_body]
    pub fn contains(&self, k: &BlockOffset) -> (r: bool) ensures r == self@.contains(*k) { unimplemented!() }
    #[verifier::external_body]
    pub fn insert(&mut self, k: BlockOffset) -> (r: bool) ensures final(self)@ == old(self)@.insert(k), r == !old(self)@.contains(k) { unimplemented!() }
    #[verifier::external_body]
    pub fn remove(&mut self, k: &BlockOffset) -> (r: bool) ensures final(self)@ == old(self)@.remove(*k) { unimplemented!() }
}

pub struct BlockReader {
    pub path: FPath,
    pub filetype: FileType,
    pub file_handle: File,
    pub blocksz: BlockSz,
    pub filesz_: FileSz,
    pub blocks: Blocks,
    pub blocks_read: BlocksTracked,
    pub blocks_highest: usize,
    pub read_block_lru_cache: BlocksLRUCache,
    pub read_block_lru_cache_enabled: bool,
    pub read_block_last: BlockOffset,
    pub count_bytes_read: Count,
    pub read_block_cache_lru_hit: Count,
    pub read_block_cache_lru_miss: Count,
    pub read_blocks_hit: Count,
    pub read_blocks_reread_error: Count,
    pub read_blocks_miss: Count,
    pub streamed: bool,
    pub drop: bool,
}
impl BlockReader {
    /// C12: both caches hold only true blocks of the file
    pub open spec fn coherent(&self) -> bool {
        &&& self.blocksz >= 1 && self.filesz_ as int == self.file_handle.bytes().len() && self.filesz_ as int + self.blocksz < u64::MAX
        &&& forall|bo: BlockOffset| #[trigger] self.blocks@.contains_key(bo) ==> self.blocks@[bo]@ == fblock(self.file_handle.bytes(), self.blocksz as int, bo as int)
        &&& forall|bo: BlockOffset| #[trigger] self.read_block_lru_cache@.contains_key(bo) ==> self.read_block_lru_cache@[bo]@ == fblock(self.file_handle.bytes(), self.blocksz as int, bo as int)
        // every stored block is tracked as read
        &&& forall|bo: BlockOffset| #[trigger] self.blocks@.contains_key(bo) ==> self.blocks_read@.contains(bo)
    }
    pub open spec fn same_file(&self, o: &Self) -> bool { self.file_handle.bytes() == o.file_handle.bytes() && self.blocksz == o.blocksz && self.filesz_ == o.filesz_ && self.filetype == o.filetype }
    // assumed here (proved in unit BLK): the last block's offset and the length of block `bo`
    #[verifier::external_body]
    pub fn blockoffset_last(&self) -> (r: BlockOffset) requires self.blocksz >= 1 ensures r as int == sp_last(self.filesz_ as int, self.blocksz as int) { unimplemented!() }
    #[verifier::external_body]
    pub fn blocksz_at_blockoffset(&self, blockoffset: &BlockOffset) -> (r: BlockSz)
        requires self.blocksz >= 1, *blockoffset as int <= sp_last(self.filesz_ as int, self.blocksz as int)
        ensures r as int == (if self.filesz_ - *blockoffset * self.blocksz < self.blocksz as int { self.filesz_ - *blockoffset * self.blocksz } else { self.blocksz as int }), r <= self.blocksz
    { unimplemented!() }
    #[verifier::external_body]
    pub fn file_offset_at_block_offset_self(&self, blockoffset: BlockOffset) -> FileOffset { unimplemented!() }
    pub fn is_streamed_file(&self) -> bool { self.streamed }
    pub fn is_drop_data(&self) -> bool { self.drop }
    /// stand-in (R9) for `counter += n` on a statistics counter: assumed not to overflow
    #[verifier::external_body]
    pub fn verif_count(&mut self) ensures final(self).coherent() == old(self).coherent(), final(self).same_file(old(self)),
        final(self).blocks == old(self).blocks, final(self).read_block_lru_cache == old(self).read_block_lru_cache, final(self).blocks_read == old(self).blocks_read,
        final(self).read_block_lru_cache_enabled == old(self).read_block_lru_cache_enabled, final(self).file_handle == old(self).file_handle,
    { unimplemented!() }

//@cut fn path=src/readers/blockreader.rs impl=BlockReader name=store_block_in_LRU_cache
//@replace "self.read_block_cache_lru_put += 1;" "self.verif_count();"
//@spec
    requires old(self).coherent(), blockp@ == fblock(old(self).file_handle.bytes(), old(self).blocksz as int, blockoffset as int)
    ensures final(self).coherent(), final(self).same_file(old(self)), final(self).blocks == old(self).blocks, final(self).blocks_read == old(self).blocks_read
//@end
//@cut fn path=src/readers/blockreader.rs impl=BlockReader name=store_block_in_storage
//@replace "self.read_blocks_put += 1;" "self.verif_count();"
//@replace "self.blocks_highest = std::cmp::max(self.blocks_highest, self.blocks.len());" "self.verif_count();"
//@spec
    requires old(self).coherent(), blockp@ == fblock(old(self).file_handle.bytes(), old(self).blocksz as int, blockoffset as int)
    ensures final(self).coherent(), final(self).same_file(old(self)),
        final(self).blocks@ == old(self).blocks@.insert(blockoffset, *blockp), final(self).blocks_read@ == old(self).blocks_read@.insert(blockoffset),
//@at_entry
    proof { broadcast use group_btree_axioms; }
//@end

//@cut fn path=src/readers/blockreader.rs impl=BlockReader name=read_block_File ret=r
//@replace "self.count_bytes_read += buffer.len() as Count;" "self.verif_count();"
//@replace "SeekFrom::Start(seek)" "SeekFrom::Start(seek)"
//@spec
    requires old(self).coherent(), blockoffset as int <= sp_last(old(self).filesz_ as int, old(self).blocksz as int),
        old(self).filetype matches FileType::Text { archival_type: FileTypeArchive::Normal, .. } || old(self).filetype matches FileType::FixedStruct { archival_type: FileTypeArchive::Normal, .. },
    ensures
        final(self).coherent(), final(self).same_file(old(self)),
        // C12: the block read for offset `bo` is exactly that block of the file
        r is Found ==> r->Found_0@ == fblock(old(self).file_handle.bytes(), old(self).blocksz as int, blockoffset as int),
        // a block at or before the last one of a non-empty file is never answered with Done
        old(self).filesz_ > 0 ==> !(r is Done),
//@at_entry
    proof { broadcast use group_btree_axioms; lemma_block_bounds(self.filesz_ as int, self.blocksz as int, blockoffset as int); }
    let ghost fbytes = self.file_handle.bytes();
//@mutate "self.store_block_in_LRU_cache(blockoffset, &blockp);" "self.store_block_in_LRU_cache(blockoffset + 1, &blockp);"
//@end

    // ASSUMED (C05, not applicable): the readers of compressed / archived files deliver the same blocks
    #[verifier::external_body]
    fn read_block_FileBz2(&mut self, blockoffset: BlockOffset) -> (r: ResultS3ReadBlock)
        requires old(self).coherent() ensures final(self).coherent(), final(self).same_file(old(self)), r is Found ==> r->Found_0@ == fblock(old(self).file_handle.bytes(), old(self).blocksz as int, blockoffset as int),
            (old(self).filesz_ > 0 && blockoffset as int <= sp_last(old(self).filesz_ as int, old(self).blocksz as int)) ==> !(r is Done)
    { unimplemented!() }
    #[verifier::external_body]
    fn read_block_FileGz(&mut self, blockoffset: BlockOffset) -> (r: ResultS3ReadBlock)
        requires old(self).coherent() ensures final(self).coherent(), final(self).same_file(old(self)), r is Found ==> r->Found_0@ == fblock(old(self).file_handle.bytes(), old(self).blocksz as int, blockoffset as int),
            (old(self).filesz_ > 0 && blockoffset as int <= sp_last(old(self).filesz_ as int, old(self).blocksz as int)) ==> !(r is Done)
    { unimplemented!() }
    #[verifier::external_body]
    fn read_block_FileLz4(&mut self, blockoffset: BlockOffset) -> (r: ResultS3ReadBlock)
        requires old(self).coherent() ensures final(self).coherent(), final(self).same_file(old(self)), r is Found ==> r->Found_0@ == fblock(old(self).file_handle.bytes(), old(self).blocksz as int, blockoffset as int),
            (old(self).filesz_ > 0 && blockoffset as int <= sp_last(old(self).filesz_ as int, old(self).blocksz as int)) ==> !(r is Done)
    { unimplemented!() }
    #[verifier::external_body]
    fn read_block_FileTar(&mut self, blockoffset: BlockOffset) -> (r: ResultS3ReadBlock)
        requires old(self).coherent() ensures final(self).coherent(), final(self).same_file(old(self)), r is Found ==> r->Found_0@ == fblock(old(self).file_handle.bytes(), old(self).blocksz as int, blockoffset as int),
            (old(self).filesz_ > 0 && blockoffset as int <= sp_last(old(self).filesz_ as int, old(self).blocksz as int)) ==> !(r is Done)
    { unimplemented!() }
    #[verifier::external_body]
    fn read_block_FileXz(&mut self, blockoffset: BlockOffset) -> (r: ResultS3ReadBlock)
        requires old(self).coherent() ensures final(self).coherent(), final(self).same_file(old(self)), r is Found ==> r->Found_0@ == fblock(old(self).file_handle.bytes(), old(self).blocksz as int, blockoffset as int),
            (old(self).filesz_ > 0 && blockoffset as int <= sp_last(old(self).filesz_ as int, old(self).blocksz as int)) ==> !(r is Done)
    { unimplemented!() }

//@cut fn path=src/readers/blockreader.rs impl=BlockReader name=read_block ret=r
//@replace "cfg!(debug_assertions)" "verif_cfg_debug()"
//@replace "self.read_block_cache_lru_hit += 1;" "verif_count_inc(&mut self.read_block_cache_lru_hit);"
//@replace "self.read_block_cache_lru_miss += 1;" "verif_count_inc(&mut self.read_block_cache_lru_miss);"
//@replace "self.read_blocks_hit += 1;" "verif_count_inc(&mut self.read_blocks_hit);"
//@replace "self.read_blocks_reread_error += 1;" "verif_count_inc(&mut self.read_blocks_reread_error);"
//@replace "self.read_blocks_miss += 1;" "verif_count_inc(&mut self.read_blocks_miss);" count=2
//@spec
    requires
        old(self).coherent(),
        !(old(self).filetype is Evtx) && !(old(self).filetype is Journal) && !(old(self).filetype is Unparsable),
    ensures
        final(self).coherent(), final(self).same_file(old(self)),
        // C12: whichever path serves the request -- LRU cache, block store, or a fresh read -- the block is that block of the file
        r is Found ==> r->Found_0@ == fblock(old(self).file_handle.bytes(), old(self).blocksz as int, blockoffset as int),
        blockoffset as int > sp_last(old(self).filesz_ as int, old(self).blocksz as int) ==> r is Done,
        // ... and a block of a non-empty file at or before the last one is never answered with Done
        (old(self).filesz_ > 0 && blockoffset as int <= sp_last(old(self).filesz_ as int, old(self).blocksz as int)) ==> !(r is Done),
//@at_entry
    proof { broadcast use group_btree_axioms; }
//@loop 1
                    invariant
                        self.coherent(), self.same_file(old(self)), blockoffset as int <= sp_last(self.filesz_ as int, self.blocksz as int),
                        !(self.filetype is Evtx) && !(self.filetype is Journal) && !(self.filetype is Unparsable),
                    ensures
                        self.coherent(), self.same_file(old(self)),
                    decreases 0int,
//@end
}
#[verifier::external_body]
pub fn verif_cfg_debug() -> bool { unimplemented!() }
/// stand-in (R9) for `counter += 1` on a u64 statistics counter: assumed not to overflow
#[verifier::external_body]
pub fn verif_count_inc(c: &mut Count) { unimplemented!() }

pub proof fn rbk__canary(r: BlockReader)
    requires r.coherent(), r.blocks@.contains_key(3), r.filesz_ == 100, r.blocksz == 10
    ensures false
{}

} // verus!
fn main() {}
