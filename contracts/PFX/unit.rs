// UNIT PFX — the one-time construction of the prepended file-name field and of the printers at first print
// (processing_loop, `if first_print { ... }`): C13 "aligned names are padded to the widest printed name", same separator
// for every source.  Strings are opaque; padding/width/basename are assumed functions of their arguments.
#![feature(allocator_api)]
#![allow(unused_imports, non_camel_case_types, dead_code, unused_variables, unused_parens, unused_mut, unused_assignments, non_snake_case, unused_labels)]
use vstd::prelude::*;
use vstd::std_specs::cmp::*;
use vstd::std_specs::btree::*;
use vstd::std_specs::hash::*;
use vstd::std_specs::iter::IteratorSpec;
use core::cmp::Ordering;
use std::collections::{BTreeMap, HashMap, HashSet};
verus! {

global size_of usize == 8;
pub type PathId = usize;
pub type SetPathId = HashSet<PathId>;

// ---- assumed: strings.  Text = what the string holds (uninterpreted); the three operations the block uses on strings are
// functions of their arguments: padding (`format!("{0:<1$}{2}", name, width, sep)` = name padded on the right to `width`
// columns, then sep), display width (unicode_width), basename.
pub struct Text { pub t: int }
#[verifier::external_body]
pub struct String { _p: u8 }
impl String {
    pub uninterp spec fn s(&self) -> Text;
    #[verifier::external_body]
    pub fn as_str(&self) -> (r: &String) ensures r.s() == self.s() { unimplemented!() }
    #[verifier::external_body]
    pub fn to_owned(&self) -> (r: String) ensures r.s() == self.s() { unimplemented!() }
}
impl Clone for String {
    #[verifier::external_body]
    fn clone(&self) -> (r: String) ensures r.s() == self.s() { unimplemented!() }
}
pub type FPath = String;
pub uninterp spec fn padsep(name: Text, width: int, sep: Text) -> Text;
pub uninterp spec fn uwidth(name: Text) -> int;
pub uninterp spec fn bname_of(path: Text) -> Text;
pub uninterp spec fn concat(a: Text, b: Text) -> Text;
#[verifier::external_body]
pub fn verif_padsep(name: &String, width: &usize, sep: &String) -> (r: String) ensures r.s() == padsep(name.s(), *width as int, sep.s()) { unimplemented!() }
#[verifier::external_body]
pub fn verif_uwidth(s: &String) -> (r: usize) ensures r as int == uwidth(s.s()) { unimplemented!() }
#[verifier::external_body]
pub fn basename(path: &FPath) -> (r: FPath) ensures r.s() == bname_of(path.s()) { unimplemented!() }
#[verifier::external_body]
pub fn verif_concat(a: String, b: &String) -> (r: String) ensures r.s() == concat(a.s(), b.s()) { unimplemented!() }
pub fn verif_max(a: usize, b: usize) -> (r: usize) ensures r == (if a >= b { a } else { b }) { if a >= b { a } else { b } }
//@formatfn "{0:<1$}{2}" verif_padsep

// ---- the coordinator's maps (aliases as in src/bin/s4.rs and src/printer/summary.rs)
#[verifier::external_body]
pub struct LogMessage { _p: u8 }
pub type IsLastLogMessage = bool;
//@cut type kind=type path=src/bin/s4.rs name=MapPathIdDatum
//@end
//@cut type kind=type path=src/printer/summary.rs name=MapPathIdToFPath
//@end
//@cut type kind=type path=src/printer/summary.rs name=MapPathIdToColor
//@end
//@cut type kind=type path=src/printer/summary.rs name=MapPathIdToPrinterLogMessage
//@end
pub type MapPathIdToPrependName = HashMap<PathId, String>;
pub type DateTimePattern_string = String;
#[derive(Clone, Copy)]
pub struct Color { pub c: u8 }
#[derive(Clone, Copy)]
pub struct ColorChoice { pub c: u8 }
#[derive(Clone, Copy)]
pub struct FixedOffset { pub secs: i32 }
/// assumed: PrinterLogMessage::new stores its five arguments (PRN's configuration invariant starts from them)
#[verifier::external_body]
pub struct PrinterLogMessage { _p: u8 }
impl PrinterLogMessage {
    pub uninterp spec fn color_choice(&self) -> ColorChoice;
    pub uninterp spec fn color(&self) -> Color;
    pub uninterp spec fn prepend_file(&self) -> Option<Text>;
    pub uninterp spec fn prepend_date_format(&self) -> Option<Text>;
    pub uninterp spec fn prepend_date_offset(&self) -> FixedOffset;
    #[verifier::external_body]
    pub fn new(color_choice: ColorChoice, color_logmessage: Color, prepend_file: Option<String>, prepend_date_format: Option<DateTimePattern_string>, prepend_date_offset: FixedOffset) -> (r: PrinterLogMessage)
        ensures
            r.color_choice() == color_choice, r.color() == color_logmessage, r.prepend_date_offset() == prepend_date_offset,
            r.prepend_file() == (match prepend_file { Some(x) => Some(x.s()), None => None::<Text> }),
            r.prepend_date_format() == (match prepend_date_format { Some(x) => Some(x.s()), None => None::<Text> }),
    { unimplemented!() }
}

// ---- the contract
/// the name shown for source p: its basename (--prepend-filename) or its whole path (--prepend-filepath)
pub open spec fn shown_name(paths: Map<PathId, FPath>, p: PathId, use_basename: bool) -> Text {
    if use_basename { bname_of(paths[p].s()) } else { paths[p].s() }
}
/// w is the display width of the widest name among the sources that have a message to print (0 if there is none)
pub open spec fn is_widest(w: int, printing: Set<PathId>, paths: Map<PathId, FPath>, use_basename: bool) -> bool {
    &&& forall|p: PathId| #[trigger] printing.contains(p) && paths.contains_key(p) ==> uwidth(shown_name(paths, p, use_basename)) <= w
    &&& (w == 0 || exists|p: PathId| #[trigger] printing.contains(p) && paths.contains_key(p) && uwidth(shown_name(paths, p, use_basename)) == w)
}

/// p is among the first idx elements the iterator has produced
pub open spec fn visited(seq: Seq<&PathId>, idx: int, p: PathId) -> bool { exists|j: int| 0 <= j < idx && j < seq.len() && *(#[trigger] seq[j]) == p }
pub proof fn lemma_visited_all(seq: Seq<&PathId>, set: Set<PathId>)
    requires seq.unref().to_set() == set, seq.unref().len() == seq.len(), forall|i: int| 0 <= i < seq.len() ==> #[trigger] seq.unref()[i] == *seq[i]
    ensures forall|p: PathId| set.contains(p) <==> #[trigger] visited(seq, seq.len() as int, p)
{
    assert forall|p: PathId| set.contains(p) <==> #[trigger] visited(seq, seq.len() as int, p) by {
        if set.contains(p) {
            assert(seq.unref().contains(p));
            let j = choose|j: int| 0 <= j < seq.unref().len() && seq.unref()[j] == p;
            assert(*seq[j] == p);
        }
        if visited(seq, seq.len() as int, p) {
            let j = choose|j: int| 0 <= j < seq.len() && j < seq.len() && *(#[trigger] seq[j]) == p;
            assert(seq.unref()[j] == p);
        }
    }
}
pub proof fn lemma_visited_step(seq: Seq<&PathId>, k: int)
    requires 0 <= k < seq.len()
    ensures
        forall|p: PathId| #[trigger] visited(seq, k + 1, p) <==> (visited(seq, k, p) || p == *seq[k]),
        forall|p: PathId| #[trigger] visited(seq, k, p) ==> visited(seq, k + 1, p),
        visited(seq, k + 1, *seq[k]), visited(seq, seq.len() as int, *seq[k]),
{
    assert(0 <= k < k + 1 && k < seq.len() && *seq[k] == *seq[k]);
    assert forall|p: PathId| #[trigger] visited(seq, k + 1, p) <==> (visited(seq, k, p) || p == *seq[k]) by {
        if visited(seq, k + 1, p) {
            let j = choose|j: int| 0 <= j < k + 1 && j < seq.len() && *(#[trigger] seq[j]) == p;
            if j < k { assert(visited(seq, k, p)); }
        }
        if visited(seq, k, p) {
            let j = choose|j: int| 0 <= j < k && j < seq.len() && *(#[trigger] seq[j]) == p;
            assert(0 <= j < k + 1 && *seq[j] == p);
        }
        if p == *seq[k] { assert(0 <= k < k + 1 && *seq[k] == p); }
    }
}
pub open spec fn name_ok(names: Map<PathId, String>, p: PathId, paths: Map<PathId, FPath>, use_basename: bool, w: int, sep: Text) -> bool {
    names.contains_key(p) && names[p].s() == padsep(shown_name(paths, p, use_basename), w, sep)
}
pub open spec fn printer_ok(printers: Map<PathId, PrinterLogMessage>, p: PathId, paths: Map<PathId, FPath>, colors: Map<PathId, Color>, color_default: Color,
    color_choice: ColorChoice, use_basename: bool, use_path: bool, w: int, sep: Text, dt_format: Option<String>, offset: FixedOffset) -> bool {
    &&& printers.contains_key(p)
    &&& printers[p].prepend_file() == (if use_basename || use_path { Some(padsep(shown_name(paths, p, use_basename), w, sep)) } else { None::<Text> })
    &&& printers[p].prepend_date_format() == (match dt_format { Some(f) => Some(concat(f.s(), sep)), None => None::<Text> })
    &&& printers[p].prepend_date_offset() == offset
    &&& printers[p].color_choice() == color_choice
    &&& printers[p].color() == (if colors.contains_key(p) { colors[p] } else { color_default })
}

pub fn pfx_first_print(
    map_pathid_datum: &MapPathIdDatum,
    map_pathid_path: &MapPathIdToFPath,
    map_pathid_color: &MapPathIdToColor,
    map_pathid_printer: &mut MapPathIdToPrinterLogMessage,
    color_default: Color,
    color_choice: ColorChoice,
    cli_opt_prepend_filename: bool,
    cli_opt_prepend_filepath: bool,
    cli_opt_prepend_file_align: bool,
    cli_prepend_separator: String,
    cli_prepend_dt_format: Option<String>,
    cli_opt_prepend_offset: FixedOffset,
) -> (r: Ghost<int>)
    requires
        // every source that sent a message was registered with its path when its thread was started
        forall|p: PathId| #[trigger] map_pathid_datum@.contains_key(p) ==> map_pathid_path@.contains_key(p),
        old(map_pathid_printer)@.dom() =~= Set::<PathId>::empty(),
    ensures
        // one printer per source that has a message to print
        forall|p: PathId| map_pathid_datum@.contains_key(p) <==> #[trigger] final(map_pathid_printer)@.contains_key(p),
        // C13: the width is 0 without --prepend-file-align, otherwise the width of the widest PRINTED name
        cli_opt_prepend_file_align && (cli_opt_prepend_filename || cli_opt_prepend_filepath)
            ==> is_widest(r@, map_pathid_datum@.dom(), map_pathid_path@, cli_opt_prepend_filename),
        !cli_opt_prepend_file_align ==> r@ == 0,
        // C13: every printer gets name padded to that one width ++ separator; the date format gets the same separator;
        // nothing when the option is off
        forall|p: PathId| #[trigger] map_pathid_datum@.contains_key(p) ==> ({
            let pr = final(map_pathid_printer)@[p];
            &&& pr.prepend_file() == (if cli_opt_prepend_filename || cli_opt_prepend_filepath {
                    Some(padsep(shown_name(map_pathid_path@, p, cli_opt_prepend_filename), r@, cli_prepend_separator.s()))
                } else { None::<Text> })
            &&& pr.prepend_date_format() == (match cli_prepend_dt_format { Some(f) => Some(concat(f.s(), cli_prepend_separator.s())), None => None::<Text> })
            &&& pr.prepend_date_offset() == cli_opt_prepend_offset
            &&& pr.color_choice() == color_choice
            &&& pr.color() == (if map_pathid_color@.contains_key(p) { map_pathid_color@[p] } else { color_default })
        }),
{
    proof { broadcast use group_btree_axioms; broadcast use vstd::std_specs::hash::group_hash_axioms; }
    let mut first_print: bool = true;
    let mut pathid_to_prependname: MapPathIdToPrependName = MapPathIdToPrependName::with_capacity(0);
    let ghost mut width_g: int = 0;
//@cut slice path=src/bin/s4.rs fn=processing_loop anchor="if first_print {" take=block label=FIRST-PRINT
//@replace "unicode_width::UnicodeWidthStr::width(" "verif_uwidth(" count=2
//@replace "std::cmp::max(" "verif_max(" count=2
//@replace "s.to_owned() + cli_prepend_separator.as_str()" "verif_concat(s.to_owned(), cli_prepend_separator.as_str())"
//@desugar_for 1 it1
//@if path=src/bin/s4.rs regex="for path in map_pathid_path\.values\(\)\s*\{\s*let bname"
//@desugar_for 2 it2
//@else
//@desugar_for 2 it2 entry="lemma_visited_all(it2.seq(), pathid_with_logmessages@);"
//@endif
//@desugar_for 3 it3 entry="lemma_visited_all(it3.seq(), pathid_with_logmessages@);"
//@if path=src/bin/s4.rs regex="for path in map_pathid_path\.values\(\)\s*\{\s*prependname_width"
//@desugar_for 4 it4
//@else
//@desugar_for 4 it4 entry="lemma_visited_all(it4.seq(), pathid_with_logmessages@);"
//@endif
//@desugar_for 5 it5 entry="lemma_visited_all(it5.seq(), pathid_with_logmessages@);"
//@desugar_for 6 it6 entry="lemma_visited_all(it6.seq(), pathid_with_logmessages@);"
//@loop 1
            invariant_except_break
                vstd::std_specs::iter::IteratorSpec::decrease(&it1.iter) is Some,
            invariant
                it1.snapshot@ == it1__snap0, it1.wf(), 0 <= it1.index@ <= it1.seq().len(),
                forall|i: int| 0 <= i < it1.seq().len() ==> map_pathid_datum@.contains_key(*(#[trigger] it1.seq()[i]).0),
                forall|k: PathId| map_pathid_datum@.contains_key(k) ==> exists|i: int| 0 <= i < it1.seq().len() && *(#[trigger] it1.seq()[i]).0 == k,
                forall|p: PathId| #[trigger] pathid_with_logmessages@.contains(p) <==> exists|j: int| 0 <= j < it1.index@ && *(#[trigger] it1.seq()[j]).0 == p,
            ensures
                it1.index@ == it1.seq().len(),
                pathid_with_logmessages@ =~= map_pathid_datum@.dom(),
            decreases vstd::std_specs::iter::IteratorSpec::decrease(&it1.iter).unwrap_or(arbitrary()),
//@loop 2
//@if path=src/bin/s4.rs regex="for path in map_pathid_path\.values\(\)\s*\{\s*let bname"
            invariant_except_break
                vstd::std_specs::iter::IteratorSpec::decrease(&it2.iter) is Some,
            invariant
                // the width loop runs over every registered path (not over the sources that have a message): only what that gives
                it2.snapshot@ == it2__snap0, it2.wf(), 0 <= it2.index@ <= it2.seq().len(),
                pathid_with_logmessages@ =~= map_pathid_datum@.dom(),
            ensures
                it2.index@ == it2.seq().len(),
                is_widest(prependname_width as int, pathid_with_logmessages@, map_pathid_path@, true),
            decreases vstd::std_specs::iter::IteratorSpec::decrease(&it2.iter).unwrap_or(arbitrary()),
//@else
            invariant_except_break
                vstd::std_specs::iter::IteratorSpec::decrease(&it2.iter) is Some,
            invariant
                it2.snapshot@ == it2__snap0, it2.wf(), 0 <= it2.index@ <= it2.seq().len(),
                it2.seq().unref().to_set() == pathid_with_logmessages@, it2.seq().unref().len() == it2.seq().len(),
                forall|i: int| 0 <= i < it2.seq().len() ==> #[trigger] it2.seq().unref()[i] == *it2.seq()[i],
                pathid_with_logmessages@ =~= map_pathid_datum@.dom(),
                forall|p: PathId| #![trigger pathid_with_logmessages@.contains(p)] #![trigger visited(it2.seq(), it2.seq().len() as int, p)] pathid_with_logmessages@.contains(p) <==> visited(it2.seq(), it2.seq().len() as int, p),
                forall|p: PathId| #[trigger] visited(it2.seq(), it2.index@ as int, p) && map_pathid_path@.contains_key(p)
                    ==> uwidth(shown_name(map_pathid_path@, p, true)) <= prependname_width,
                prependname_width == 0 || exists|p: PathId| #[trigger] visited(it2.seq(), it2.index@ as int, p) && map_pathid_path@.contains_key(p)
                    && uwidth(shown_name(map_pathid_path@, p, true)) == prependname_width,
            ensures
                it2.index@ == it2.seq().len(),
                forall|p: PathId| pathid_with_logmessages@.contains(p) ==> #[trigger] visited(it2.seq(), it2.seq().len() as int, p),
                is_widest(prependname_width as int, pathid_with_logmessages@, map_pathid_path@, true),
            decreases vstd::std_specs::iter::IteratorSpec::decrease(&it2.iter).unwrap_or(arbitrary()),
//@endif
//@loop 3
            invariant_except_break
                vstd::std_specs::iter::IteratorSpec::decrease(&it3.iter) is Some,
            invariant
                it3.snapshot@ == it3__snap0, it3.wf(), 0 <= it3.index@ <= it3.seq().len(),
                it3.seq().unref().to_set() == pathid_with_logmessages@, it3.seq().unref().len() == it3.seq().len(),
                forall|i: int| 0 <= i < it3.seq().len() ==> #[trigger] it3.seq().unref()[i] == *it3.seq()[i],
                pathid_with_logmessages@ =~= map_pathid_datum@.dom(),
                forall|p: PathId| #![trigger pathid_with_logmessages@.contains(p)] #![trigger visited(it3.seq(), it3.seq().len() as int, p)] pathid_with_logmessages@.contains(p) <==> visited(it3.seq(), it3.seq().len() as int, p),
                forall|p: PathId| #[trigger] visited(it3.seq(), it3.index@ as int, p) && map_pathid_path@.contains_key(p)
                    ==> name_ok(pathid_to_prependname@, p, map_pathid_path@, true, prependname_width as int, cli_prepend_separator.s()),
            ensures
                it3.index@ == it3.seq().len(),
                forall|p: PathId| pathid_with_logmessages@.contains(p) ==> #[trigger] visited(it3.seq(), it3.seq().len() as int, p),
                forall|p: PathId| #[trigger] pathid_with_logmessages@.contains(p) && map_pathid_path@.contains_key(p) ==> name_ok(pathid_to_prependname@, p, map_pathid_path@, true, prependname_width as int, cli_prepend_separator.s()),
            decreases vstd::std_specs::iter::IteratorSpec::decrease(&it3.iter).unwrap_or(arbitrary()),
//@loop 4
//@if path=src/bin/s4.rs regex="for path in map_pathid_path\.values\(\)\s*\{\s*prependname_width"
            invariant_except_break
                vstd::std_specs::iter::IteratorSpec::decrease(&it4.iter) is Some,
            invariant
                // the width loop runs over every registered path (not over the sources that have a message): only what that gives
                it4.snapshot@ == it4__snap0, it4.wf(), 0 <= it4.index@ <= it4.seq().len(),
                pathid_with_logmessages@ =~= map_pathid_datum@.dom(),
            ensures
                it4.index@ == it4.seq().len(),
                is_widest(prependname_width as int, pathid_with_logmessages@, map_pathid_path@, false),
            decreases vstd::std_specs::iter::IteratorSpec::decrease(&it4.iter).unwrap_or(arbitrary()),
//@else
            invariant_except_break
                vstd::std_specs::iter::IteratorSpec::decrease(&it4.iter) is Some,
            invariant
                it4.snapshot@ == it4__snap0, it4.wf(), 0 <= it4.index@ <= it4.seq().len(),
                it4.seq().unref().to_set() == pathid_with_logmessages@, it4.seq().unref().len() == it4.seq().len(),
                forall|i: int| 0 <= i < it4.seq().len() ==> #[trigger] it4.seq().unref()[i] == *it4.seq()[i],
                pathid_with_logmessages@ =~= map_pathid_datum@.dom(),
                forall|p: PathId| #![trigger pathid_with_logmessages@.contains(p)] #![trigger visited(it4.seq(), it4.seq().len() as int, p)] pathid_with_logmessages@.contains(p) <==> visited(it4.seq(), it4.seq().len() as int, p),
                forall|p: PathId| #[trigger] visited(it4.seq(), it4.index@ as int, p) && map_pathid_path@.contains_key(p)
                    ==> uwidth(shown_name(map_pathid_path@, p, false)) <= prependname_width,
                prependname_width == 0 || exists|p: PathId| #[trigger] visited(it4.seq(), it4.index@ as int, p) && map_pathid_path@.contains_key(p)
                    && uwidth(shown_name(map_pathid_path@, p, false)) == prependname_width,
            ensures
                it4.index@ == it4.seq().len(),
                forall|p: PathId| pathid_with_logmessages@.contains(p) ==> #[trigger] visited(it4.seq(), it4.seq().len() as int, p),
                is_widest(prependname_width as int, pathid_with_logmessages@, map_pathid_path@, false),
            decreases vstd::std_specs::iter::IteratorSpec::decrease(&it4.iter).unwrap_or(arbitrary()),
//@endif
//@loop 5
            invariant_except_break
                vstd::std_specs::iter::IteratorSpec::decrease(&it5.iter) is Some,
            invariant
                it5.snapshot@ == it5__snap0, it5.wf(), 0 <= it5.index@ <= it5.seq().len(),
                it5.seq().unref().to_set() == pathid_with_logmessages@, it5.seq().unref().len() == it5.seq().len(),
                forall|i: int| 0 <= i < it5.seq().len() ==> #[trigger] it5.seq().unref()[i] == *it5.seq()[i],
                pathid_with_logmessages@ =~= map_pathid_datum@.dom(),
                forall|p: PathId| #![trigger pathid_with_logmessages@.contains(p)] #![trigger visited(it5.seq(), it5.seq().len() as int, p)] pathid_with_logmessages@.contains(p) <==> visited(it5.seq(), it5.seq().len() as int, p),
                forall|p: PathId| #[trigger] visited(it5.seq(), it5.index@ as int, p) && map_pathid_path@.contains_key(p)
                    ==> name_ok(pathid_to_prependname@, p, map_pathid_path@, false, prependname_width as int, cli_prepend_separator.s()),
            ensures
                it5.index@ == it5.seq().len(),
                forall|p: PathId| pathid_with_logmessages@.contains(p) ==> #[trigger] visited(it5.seq(), it5.seq().len() as int, p),
                forall|p: PathId| #[trigger] pathid_with_logmessages@.contains(p) && map_pathid_path@.contains_key(p) ==> name_ok(pathid_to_prependname@, p, map_pathid_path@, false, prependname_width as int, cli_prepend_separator.s()),
            decreases vstd::std_specs::iter::IteratorSpec::decrease(&it5.iter).unwrap_or(arbitrary()),
//@loop 6
            invariant_except_break
                vstd::std_specs::iter::IteratorSpec::decrease(&it6.iter) is Some,
            invariant
                it6.snapshot@ == it6__snap0, it6.wf(), 0 <= it6.index@ <= it6.seq().len(),
                it6.seq().unref().to_set() == pathid_with_logmessages@, it6.seq().unref().len() == it6.seq().len(),
                forall|i: int| 0 <= i < it6.seq().len() ==> #[trigger] it6.seq().unref()[i] == *it6.seq()[i],
                pathid_with_logmessages@ =~= map_pathid_datum@.dom(),
                forall|p: PathId| #![trigger pathid_with_logmessages@.contains(p)] #![trigger visited(it6.seq(), it6.seq().len() as int, p)] pathid_with_logmessages@.contains(p) <==> visited(it6.seq(), it6.seq().len() as int, p),
                cli_opt_prepend_filename || cli_opt_prepend_filepath ==> forall|p: PathId| #[trigger] pathid_with_logmessages@.contains(p) && map_pathid_path@.contains_key(p)
                    ==> name_ok(pathid_to_prependname@, p, map_pathid_path@, cli_opt_prepend_filename, prependname_width as int, cli_prepend_separator.s()),
                forall|p: PathId| map_pathid_datum@.contains_key(p) ==> map_pathid_path@.contains_key(p),
                forall|p: PathId| #[trigger] visited(it6.seq(), it6.index@ as int, p) ==> printer_ok(map_pathid_printer@, p, map_pathid_path@, map_pathid_color@, color_default, color_choice,
                    cli_opt_prepend_filename, cli_opt_prepend_filepath, prependname_width as int, cli_prepend_separator.s(), cli_prepend_dt_format, cli_opt_prepend_offset),
                forall|p: PathId| #[trigger] map_pathid_printer@.contains_key(p) ==> visited(it6.seq(), it6.index@ as int, p),
            ensures
                it6.index@ == it6.seq().len(),
                forall|p: PathId| pathid_with_logmessages@.contains(p) ==> #[trigger] visited(it6.seq(), it6.seq().len() as int, p),
                forall|p: PathId| #[trigger] pathid_with_logmessages@.contains(p) ==> printer_ok(map_pathid_printer@, p, map_pathid_path@, map_pathid_color@, color_default, color_choice,
                    cli_opt_prepend_filename, cli_opt_prepend_filepath, prependname_width as int, cli_prepend_separator.s(), cli_prepend_dt_format, cli_opt_prepend_offset),
                forall|p: PathId| #[trigger] map_pathid_printer@.contains_key(p) ==> pathid_with_logmessages@.contains(p),
            decreases vstd::std_specs::iter::IteratorSpec::decrease(&it6.iter).unwrap_or(arbitrary()),
//@if path=src/bin/s4.rs regex="for path in map_pathid_path\.values\(\)\s*\{\s*let bname"
//@else
//@after "let mut it2 ="
                        proof { lemma_visited_step(it2.seq(), it2__old.index@ as int); }
//@endif
//@after "let mut it3 ="
                        proof { lemma_visited_step(it3.seq(), it3__old.index@ as int); }
//@if path=src/bin/s4.rs regex="for path in map_pathid_path\.values\(\)\s*\{\s*prependname_width"
//@else
//@after "let mut it4 ="
                        proof { lemma_visited_step(it4.seq(), it4__old.index@ as int); }
//@endif
//@after "let mut it5 ="
                        proof { lemma_visited_step(it5.seq(), it5__old.index@ as int); }
//@after "let mut it6 ="
                        proof { lemma_visited_step(it6.seq(), it6__old.index@ as int); }
//@before "first_print = false;"
                proof { width_g = prependname_width as int; }
//@end
    Ghost(width_g)
}

pub proof fn pfx__canary(datum: Map<PathId, (LogMessage, IsLastLogMessage)>, paths: Map<PathId, FPath>, w: int)
    requires
        forall|p: PathId| #[trigger] datum.contains_key(p) ==> paths.contains_key(p),
        datum.contains_key(3), datum.contains_key(4), is_widest(w, datum.dom(), paths, true), w > 0,
    ensures false
{}

} // verus!
fn main() {}
